//! C19 harnesses: the bit-array substrate of `scrunch` (BitArray, its Builder, FixedWidthIterator,
//! ReferenceBitVector, partition_by) against a plain `[bool; L]` model.  Public API only.
#![allow(clippy::all, dead_code)]
#[macro_use]
#[path = "/verif/hk/vk.rs"]
mod vk;
use scrunch::binary_search::partition_by;
use scrunch::bit_array::{BitArray, Builder as BitBuilder};
use scrunch::bit_vector::{BitVector, ReferenceBitVector};
use scrunch::builder::Builder;
use vk::Tape;

#[cfg(kani)]
fn stub_format(_: core::fmt::Arguments<'_>) -> String {
    String::new()
}

fn bits_of<const L: usize>(t: &mut Tape) -> [bool; L] {
    let mut b = [false; L];
    let mut i = 0;
    while i < L {
        if i % 8 == 0 {
            // one tape byte per 8 bits
        }
        i += 1;
    }
    let mut byte = 0u8;
    let mut i = 0;
    while i < L {
        if i % 8 == 0 {
            byte = t.u8();
        }
        b[i] = (byte >> (i % 8)) & 1 == 1;
        i += 1;
    }
    b
}

/// Builder::push bit by bit, then BitArray::get / load(index, width) for symbolic index, width.
fn bit_array<const L: usize>(t: &[u8]) {
    let mut t = Tape::new(t);
    let bits: [bool; L] = bits_of(&mut t);
    let mut b = BitBuilder::with_capacity(L);
    let mut i = 0;
    while i < L {
        b.push(bits[i]);
        i += 1;
    }
    assert!(b.len() == L, "builder counts the pushed bits");
    let bytes = b.seal();
    assert!(bytes.len() == (L + 7) / 8, "sealed length is ceil(bits/8)");
    let ba = BitArray::new(&bytes);
    assert!(ba.bits() == bytes.len() * 8, "bit capacity");
    let idx = t.u8() as usize;
    match ba.get(idx) {
        Some(v) => {
            assert!(idx < bytes.len() * 8, "get succeeds only inside the array");
            assert!(v == (idx < L && bits[idx]), "get returns the pushed bit (padding bits are zero)");
        }
        None => assert!(idx >= bytes.len() * 8, "get fails only outside the array"),
    }
    let w = (t.u8() % 17) as usize; // widths 0..16
    match ba.load(idx, w) {
        Some(x) => {
            let mut j = 0;
            while j < 16 {
                if j < w {
                    let want = idx + j < L && bits[idx + j];
                    assert!(((x >> j) & 1 == 1) == want, "load returns bits index.. in little-endian bit order");
                } else {
                    assert!((x >> j) & 1 == 0, "load returns nothing beyond the requested width");
                }
                j += 1;
            }
        }
        None => assert!(w > 0 && idx + w > bytes.len() * 8 - 0 || idx / 8 >= bytes.len(), "load fails only when it would read past the last byte"),
    }
    vcover!(L < 9 || (w > 8 && idx % 8 != 0 && ba.load(idx, w).is_some()), "unaligned load across a byte boundary");
    vcover!(ba.load(idx, w).is_none(), "load out of range");
    core::mem::forget(bytes);
}
harness!(bit_array_1, 3, |t| { bit_array::<1>(t) });
harness!(bit_array_7, 3, |t| { bit_array::<7>(t) });
harness!(bit_array_8, 3, |t| { bit_array::<8>(t) });
harness!(bit_array_9, 4, |t| { bit_array::<9>(t) });
harness!(bit_array_16, 4, |t| { bit_array::<16>(t) });
harness!(bit_array_24, 5, |t| { bit_array::<24>(t) });

/// push_word writes the low `bits` bits, little-endian, at bit alignment PRE; a bit pushed
/// afterwards lands right behind it.
fn push_word<const PRE: usize, const W: usize>(t: &[u8]) {
    let mut t = Tape::new(t);
    let word = t.u64() & ((1u64 << W) - 1);
    let mut b = BitBuilder::with_capacity(64);
    let mut i = 0;
    while i < PRE {
        b.push(i % 2 == 0);
        i += 1;
    }
    b.push_word(word, W);
    assert!(b.len() == PRE + W, "builder length after push_word");
    let tail_bit = t.bool();
    b.push(tail_bit);
    assert!(b.len() == PRE + W + 1, "builder length after a following push");
    let bytes = b.seal();
    let ba = BitArray::new(&bytes);
    if W > 0 {
        assert!(ba.load(PRE, W) == Some(word), "load reads back what push_word wrote");
    }
    assert!(ba.get(PRE + W) == Some(tail_bit), "a bit pushed after push_word is stored right behind the word");
    let mut i = 0;
    while i < PRE {
        assert!(ba.get(i) == Some(i % 2 == 0), "earlier bits untouched");
        i += 1;
    }
    vcover!(W == 0 || word >> (W - 1) == 1, "top bit of the word set");
    core::mem::forget(bytes);
}
harness!(push_word_p0_w8, 9, |t| { push_word::<0, 8>(t) });
harness!(push_word_p3_w13, 9, |t| { push_word::<3, 13>(t) });
harness!(push_word_p7_w17, 9, |t| { push_word::<7, 17>(t) });
harness!(push_word_p5_w3, 9, |t| { push_word::<5, 3>(t) });
harness!(push_word_p4_w0, 9, |t| { push_word::<4, 0>(t) });

/// ReferenceBitVector: construct -> serialise -> parse -> access/rank/select/rank0/select0 for a
/// symbolic query index against counting over the bool array.
fn reference_bv<const L: usize, const SEL: bool>(t: &[u8]) {
    let mut t = Tape::new(t);
    let bits: [bool; L] = bits_of(&mut t);
    let mut buf: Vec<u8> = Vec::new();
    {
        let mut builder = Builder::new(&mut buf);
        assert!(ReferenceBitVector::construct(&bits[..], &mut builder).is_ok(), "construct Ok");
    }
    let parsed = ReferenceBitVector::parse(&buf);
    assert!(parsed.is_ok(), "parse of a constructed vector Ok");
    let (bv, rest) = parsed.ok().unwrap();
    assert!(rest.len() == 0, "parse consumes the serialisation");
    assert!(bv.len() == L, "length");
    let x = (t.u8() as usize) % (L + 2);
    // model
    let mut ones_before = 0usize;
    let mut total_ones = 0usize;
    let mut i = 0;
    while i < L {
        if bits[i] {
            if i < x {
                ones_before += 1;
            }
            total_ones += 1;
        }
        i += 1;
    }
    assert!(bv.access(x) == if x < L { Some(bits[x]) } else { None }, "access");
    assert!(bv.access_rank(x) == if x < L { Some((bits[x], ones_before)) } else { None }, "access_rank = (access, rank), None past the last bit");
    assert!(bv.rank(x) == if x <= L { Some(ones_before) } else { None }, "rank(x) = ones in [0, x)");
    assert!(bv.rank0(x) == if x <= L { Some(x - ones_before) } else { None }, "rank0(x) = zeros in [0, x)");
    vcover!(total_ones == L, "all ones");
    vcover!(total_ones == 0, "all zeros");
    vcover!(x == L + 1, "query past the end");
    if !SEL {
        core::mem::forget(bv);
        core::mem::forget(buf);
        return;
    }
    // select(k): position just past the k-th one (select(0) == 0)
    let k = x;
    let mut want_sel: Option<usize> = if k == 0 { Some(0) } else { None };
    let mut want_sel0: Option<usize> = if k == 0 { Some(0) } else { None };
    let (mut c1, mut c0) = (0usize, 0usize);
    let mut i = 0;
    while i < L {
        if bits[i] {
            c1 += 1;
            if c1 == k {
                want_sel = Some(i + 1);
            }
        } else {
            c0 += 1;
            if c0 == k {
                want_sel0 = Some(i + 1);
            }
        }
        i += 1;
    }
    assert!(bv.select(k) == want_sel, "select(k) = index just past the k-th set bit");
    assert!(bv.select0(k) == want_sel0, "select0(k) = index just past the k-th clear bit");
    core::mem::forget(bv);
    core::mem::forget(buf);
}
harness!(#[kani::stub(alloc::fmt::format, stub_format)] reference_bv_0, 2, |t| { reference_bv::<0, true>(t) });
harness!(#[kani::stub(alloc::fmt::format, stub_format)] reference_bv_1, 2, |t| { reference_bv::<1, true>(t) });
harness!(#[kani::stub(alloc::fmt::format, stub_format)] reference_bv_rank_4, 2, |t| { reference_bv::<4, false>(t) });
harness!(#[kani::stub(alloc::fmt::format, stub_format)] reference_bv_rank_8, 2, |t| { reference_bv::<8, false>(t) });
harness!(#[kani::stub(alloc::fmt::format, stub_format)] reference_bv_rank_9, 3, |t| { reference_bv::<9, false>(t) });
harness!(#[kani::stub(alloc::fmt::format, stub_format)] reference_bv_select_3, 2, |t| { reference_bv::<3, true>(t) });
harness!(#[kani::stub(alloc::fmt::format, stub_format)] reference_bv_select_5, 2, |t| { reference_bv::<5, true>(t) });

/// partition_by over every monotone predicate on [first, last].
harness!(partition_by_all, 3, |t| {
    let first = (t[0] % 8) as usize;
    let len = (t[1] % 9) as usize;
    let last = first + len;
    let split = first + (t[2] as usize) % (len + 1); // predicate true below split
    let mut probed_last = false;
    let got = partition_by(first, last, |i| {
        if i == last {
            probed_last = true;
        }
        i < split
    });
    assert!(got == split, "partition_by returns the first index where the predicate is false");
    assert!(!probed_last || len == 0, "the last index is never probed");
    vcover!(split == first, "all false");
    vcover!(split == last && len > 0, "all true");
});

harness_list!(
    bit_array_1, bit_array_7, bit_array_8, bit_array_9, bit_array_16, bit_array_24,
    push_word_p0_w8, push_word_p3_w13, push_word_p7_w17, push_word_p5_w3, push_word_p4_w0,
    reference_bv_0, reference_bv_1, reference_bv_rank_4, reference_bv_rank_8, reference_bv_rank_9, reference_bv_select_3, reference_bv_select_5, partition_by_all,
);
