//! C14 harnesses over the public API of `setsum` (no source hook needed).
//! Every query ranges over all values of the tape: 2^256..2^768 states, nothing sampled.
#![allow(clippy::all)]
#[macro_use]
#[path = "/verif/hk/vk.rs"]
mod vk;
use setsum::*;
use vk::Tape;

/// The published primes, restated here (the oracle must not read them from the code under test).
const P: [u32; 8] = [
    4294967291, 4294967279, 4294967231, 4294967197, 4294967189, 4294967161, 4294967143, 4294967111,
];

fn state(t: &mut Tape) -> [u32; 8] {
    let mut s = [0u32; 8];
    let mut i = 0;
    while i < 8 {
        s[i] = t.u32();
        i += 1;
    }
    s
}
fn canonical(s: &[u32; 8]) -> bool {
    let mut ok = true;
    let mut i = 0;
    while i < 8 {
        ok &= s[i] < P[i];
        i += 1;
    }
    ok
}
/// Independent reading of the definition: column i is (a+b) mod P[i], in u64.
fn model_add(a: &[u32; 8], b: &[u32; 8]) -> [u32; 8] {
    let mut r = [0u32; 8];
    let mut i = 0;
    while i < 8 {
        r[i] = ((a[i] as u64 + b[i] as u64) % (P[i] as u64)) as u32;
        i += 1;
    }
    r
}
/// The element of Z_p1 x .. x Z_p8 that a (possibly non-canonical) state denotes.
fn denote(a: &[u32; 8]) -> [u32; 8] {
    let mut r = [0u32; 8];
    let mut i = 0;
    while i < 8 {
        r[i] = a[i] % P[i];
        i += 1;
    }
    r
}
fn cols(d: &[u8; 32]) -> [u32; 8] {
    let mut r = [0u32; 8];
    let mut i = 0;
    while i < 8 {
        r[i] = u32::from_le_bytes([d[4 * i], d[4 * i + 1], d[4 * i + 2], d[4 * i + 3]]);
        i += 1;
    }
    r
}
fn val(s: &Setsum) -> [u32; 8] {
    denote(&cols(&s.digest()))
}

// ---- 1. add_state / invert_state on canonical operands (the documented representation) ----

harness!(add_state_def, 64, |t| {
    let mut t = Tape::new(t);
    let a = state(&mut t);
    let b = state(&mut t);
    vassume!(canonical(&a) && canonical(&b));
    let r = add_state(a, b);
    assert!(r == model_add(&a, &b), "add_state == (a+b) mod p");
    assert!(canonical(&r), "add_state result canonical");
    assert!(r == add_state(b, a), "add_state commutative");
    assert!(add_state(a, [0u32; 8]) == a, "add_state identity");
    vcover!(a[0] as u64 + b[0] as u64 >= P[0] as u64, "column 0 wraps");
    vcover!(a[7] as u64 + b[7] as u64 == P[7] as u64, "column 7 sums to exactly p");
    vcover!((a[3] as u64 + b[3] as u64) < P[3] as u64, "column 3 does not wrap");
});

harness!(add_state_assoc, 96, |t| {
    let mut t = Tape::new(t);
    let a = state(&mut t);
    let b = state(&mut t);
    let c = state(&mut t);
    vassume!(canonical(&a) && canonical(&b) && canonical(&c));
    assert!(
        add_state(add_state(a, b), c) == add_state(a, add_state(b, c)),
        "add_state associative"
    );
    vcover!(a[0] > 0xffff_0000 && b[0] > 0xffff_0000 && c[0] > 0xffff_0000, "all large");
});

harness!(invert_canonical, 64, |t| {
    let mut t = Tape::new(t);
    let a = state(&mut t);
    let b = state(&mut t);
    vassume!(canonical(&a) && canonical(&b));
    let i = invert_state(a);
    assert!(add_state(a, i) == [0u32; 8], "a + (-a) == 0");
    assert!(add_state(add_state(b, a), i) == b, "(b + a) + (-a) == b");
    vcover!(a[0] == 0, "column zero");
    vcover!(a[1] == P[1] - 1, "column p-1");
});

// ---- 2. laws through the public API over ARBITRARY digests (incl. columns p..2^32-1) ----

harness!(api_add_definition, 64, |t| {
    let mut t = Tape::new(t);
    let dx: [u8; 32] = t.arr();
    let dy: [u8; 32] = t.arr();
    let x = Setsum::from_digest(dx);
    let y = Setsum::from_digest(dy);
    let want = model_add(&denote(&cols(&dx)), &denote(&cols(&dy)));
    assert!(val(&(x + y)) == want, "x + y == columnwise (x+y) mod p");
    assert!(x + y == y + x, "x + y == y + x");
    let mut z = x;
    z += y;
    assert!(z == x + y, "+= agrees with +");
    assert!(val(&(x + Setsum::default())) == val(&x), "x + 0 == x");
    vcover!(cols(&dx)[0] >= P[0] && cols(&dy)[0] >= P[0], "both non-canonical in column 0");
    vcover!(cols(&dx)[7] == u32::MAX, "column 7 at 2^32-1");
    vcover!(canonical(&cols(&dx)) && canonical(&cols(&dy)), "both canonical");
});

harness!(api_sub_undoes_add, 64, |t| {
    let mut t = Tape::new(t);
    let dx: [u8; 32] = t.arr();
    let dy: [u8; 32] = t.arr();
    let x = Setsum::from_digest(dx);
    let y = Setsum::from_digest(dy);
    let r = (x + y) - y;
    assert!(val(&r) == val(&x), "(x + y) - y == x");
    let r2 = (x - y) + y;
    assert!(val(&r2) == val(&x), "(x - y) + y == x");
    if canonical(&cols(&dx)) {
        assert!(r == x && r2 == x, "canonical x is restored exactly");
    }
    assert!(val(&(x - x)) == [0u32; 8], "x - x == 0");
    let mut z = x;
    z -= y;
    assert!(z == x - y, "-= agrees with -");
    vcover!(cols(&dy)[0] >= P[0], "y non-canonical in column 0");
    vcover!(cols(&dy)[5] == P[5], "y column 5 exactly p");
    vcover!(cols(&dy)[2] == 0, "y column 2 zero");
    vcover!(canonical(&cols(&dx)) && canonical(&cols(&dy)), "both canonical");
});

harness!(api_assoc, 96, |t| {
    let mut t = Tape::new(t);
    let x = Setsum::from_digest(t.arr());
    let y = Setsum::from_digest(t.arr());
    let z = Setsum::from_digest(t.arr());
    assert!(val(&((x + y) + z)) == val(&(x + (y + z))), "(x+y)+z == x+(y+z)");
    vcover!(val(&x) != val(&y), "distinct");
});

// ---- 3. digest round trips ----

harness!(digest_roundtrip, 64, |t| {
    let mut t = Tape::new(t);
    let dx: [u8; 32] = t.arr();
    let dy: [u8; 32] = t.arr();
    // every value reachable through the API: parsed digests and sums/differences of them
    let x = Setsum::from_digest(dx);
    let y = Setsum::from_digest(dy);
    assert!(Setsum::from_digest(x.digest()) == x, "from_digest(digest(x)) == x");
    let s = x + y;
    assert!(Setsum::from_digest(s.digest()) == s, "from_digest(digest(x+y)) == x+y");
    let d = x - y;
    assert!(Setsum::from_digest(d.digest()) == d, "from_digest(digest(x-y)) == x-y");
    if canonical(&cols(&dx)) {
        assert!(x.digest() == dx, "canonical digest bytes are preserved");
    }
    assert!(val(&x) == denote(&cols(&dx)), "from_digest reads little-endian 4-byte columns");
    vcover!(!canonical(&cols(&dx)), "non-canonical digest parsed");
});

/// hexdigest/from_hexdigest with formatting NOT stubbed.  Formatting a fully symbolic digest does
/// not finish (symex > 25 min), so two digest bytes (positions `A`, `B`) are symbolic per
/// instance and the other 30 carry a fixed pattern; the per-byte formatting loop treats every
/// position alike.
fn hexdigest_rt<const A: usize, const B: usize>(t: &[u8]) {
    let mut dx = [0u8; 32];
    let mut i = 0;
    while i < 32 {
        dx[i] = (i as u8).wrapping_mul(37) ^ 0x5a;
        i += 1;
    }
    dx[A] = t[0];
    dx[B] = t[1];
    // keep the two columns canonical so that digest() returns the same bytes
    let x = Setsum::from_digest(dx);
    let h = x.hexdigest();
    assert!(h.len() == 64, "hexdigest is 64 characters");
    let d = x.digest();
    let hb = h.as_bytes();
    let hex = b"0123456789abcdef";
    let mut i = 0;
    while i < 32 {
        assert!(hb[2 * i] == hex[(d[i] >> 4) as usize], "high nibble, lower-case hex");
        assert!(hb[2 * i + 1] == hex[(d[i] & 15) as usize], "low nibble, lower-case hex");
        i += 1;
    }
    assert!(Setsum::from_hexdigest(&h) == Some(x), "from_hexdigest(hexdigest(x)) == x");
    vcover!(t[0] >= 0xa0, "a hex letter occurs");
    vcover!(t[1] < 0x10, "a leading zero nibble occurs");
    core::mem::forget(h);
}
harness!(hexdigest_roundtrip_0_31, 2, |t| { hexdigest_rt::<0, 31>(t) });
harness!(hexdigest_roundtrip_15_16, 2, |t| { hexdigest_rt::<15, 16>(t) });

/// from_hexdigest on a 64-char string in which 4 characters (positions 0, 1, 62, 63) are
/// arbitrary ASCII and the others are fixed hex digits: None or a value, never a panic; if all
/// four are lower-case hex the string denotes its bytes.
harness!(from_hexdigest_total, 4, |t| {
    let mut sbytes = [b'0'; 64];
    let mut i = 0;
    while i < 64 {
        sbytes[i] = b"0123456789abcdef"[(i * 7) % 16];
        i += 1;
    }
    let pos = [0usize, 1, 62, 63];
    let mut all_hex = true;
    let mut k = 0;
    while k < 4 {
        vassume!(t[k] < 0x80);
        sbytes[pos[k]] = t[k];
        all_hex &= (t[k] >= b'0' && t[k] <= b'9') || (t[k] >= b'a' && t[k] <= b'f');
        k += 1;
    }
    let s = core::str::from_utf8(&sbytes).unwrap();
    let r = Setsum::from_hexdigest(s);
    if all_hex {
        let mut d = [0u8; 32];
        let mut i = 0;
        while i < 32 {
            let (c0, c1) = (sbytes[2 * i], sbytes[2 * i + 1]);
            let hi = if c0 <= b'9' { c0 - b'0' } else { c0 - b'a' + 10 };
            let lo = if c1 <= b'9' { c1 - b'0' } else { c1 - b'a' + 10 };
            d[i] = hi * 16 + lo;
            i += 1;
        }
        assert!(r == Some(Setsum::from_digest(d)), "hex string denotes its bytes");
    }
    vcover!(all_hex, "valid hex");
    vcover!(r.is_none(), "rejected");
});

harness!(from_hexdigest_wrong_len, 40, |t| {
    let mut i = 0;
    while i < 40 {
        vassume!(t[i] < 0x80);
        i += 1;
    }
    let s = core::str::from_utf8(t).unwrap();
    assert!(Setsum::from_hexdigest(s).is_none(), "wrong length rejected");
    assert!(Setsum::from_hexdigest(&s[..0]).is_none(), "empty rejected");
});

harness_list!(
    add_state_def, add_state_assoc, invert_canonical, api_add_definition, api_sub_undoes_add,
    api_assoc, digest_roundtrip, hexdigest_roundtrip_0_31, hexdigest_roundtrip_15_16, from_hexdigest_total, from_hexdigest_wrong_len,
);
