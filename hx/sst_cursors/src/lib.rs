//! C11 (cursor combinators), C05 (merge conservation, GC determiners) harnesses over the public
//! API of `sst`.  The children are `ArrCursor<N>`: a fixed-capacity array cursor with exactly the
//! semantics of `sst::reference::ReferenceCursor` (the "one cursor over a sorted table" the
//! definitions quantify over).  The reference side returns plain values, never references.
#![allow(clippy::all, dead_code)]
#[macro_use]
#[path = "/verif/hk/vk.rs"]
mod vk;
use sst::bounds_cursor::BoundsCursor;
use sst::concat_cursor::ConcatenatingCursor;
use sst::merging_cursor::MergingCursor;
use sst::pruning_cursor::PruningCursor;
use sst::{Cursor, KeyRef, SError};
use std::ops::Bound;
use vk::Tape;

#[cfg(kani)]
fn stub_format(_: core::fmt::Arguments<'_>) -> String {
    String::new()
}

#[derive(Clone, Copy, PartialEq, Eq)]
pub struct E {
    pub k: [u8; 1],
    pub t: u64,
    pub tomb: bool,
    pub v: [u8; 1],
}
const E0: E = E { k: [0], t: 0, tomb: false, v: [0] };

/// (key, timestamp, value-or-tombstone) as plain values.
pub type Obs = Option<(u8, u64, Option<u8>)>;

#[derive(Clone)]
pub struct ArrCursor<const N: usize> {
    e: [E; N],
    n: usize,
    pos: isize,
}
impl<const N: usize> ArrCursor<N> {
    pub fn new(e: [E; N], n: usize) -> Self {
        Self { e, n, pos: -1 }
    }
    pub fn obs(&self) -> Obs {
        if self.pos >= 0 && (self.pos as usize) < self.n {
            let e = self.e[self.pos as usize];
            Some((e.k[0], e.t, if e.tomb { None } else { Some(e.v[0]) }))
        } else {
            None
        }
    }
}
impl<const N: usize> Cursor for ArrCursor<N> {
    fn seek_to_first(&mut self) -> Result<(), SError> {
        self.pos = -1;
        Ok(())
    }
    fn seek_to_last(&mut self) -> Result<(), SError> {
        self.pos = self.n as isize;
        Ok(())
    }
    fn seek(&mut self, key: &[u8]) -> Result<(), SError> {
        let mut i = 0;
        while i < self.n && self.e[i].k[0] < key[0] {
            i += 1;
        }
        self.pos = i as isize;
        Ok(())
    }
    fn prev(&mut self) -> Result<(), SError> {
        if self.pos >= 0 {
            self.pos -= 1;
        }
        Ok(())
    }
    fn next(&mut self) -> Result<(), SError> {
        if self.pos < self.n as isize {
            self.pos += 1;
        }
        Ok(())
    }
    fn key(&self) -> Option<KeyRef<'_>> {
        if self.pos >= 0 && (self.pos as usize) < self.n {
            let e = &self.e[self.pos as usize];
            Some(KeyRef::new(&e.k, e.t))
        } else {
            None
        }
    }
    fn value(&self) -> Option<&[u8]> {
        if self.pos >= 0 && (self.pos as usize) < self.n {
            let e = &self.e[self.pos as usize];
            if e.tomb { None } else { Some(&e.v) }
        } else {
            None
        }
    }
}

pub fn obs_of<C: Cursor>(c: &C) -> Obs {
    match c.key() {
        None => {
            // a cursor at its limits has no value either
            None
        }
        Some(k) => Some((k.key[0], k.timestamp, c.value().map(|v| v[0]))),
    }
}

/// entry from 3 tape bytes: key 0..3, timestamp 0..3, tombstone flag; the value identifies
/// the entry (so a cursor returning the right key with the wrong entry's value is caught).
fn entry(t: &mut Tape) -> E {
    let k = t.u8() & 3;
    let ts = t.u8() & 3;
    let tomb = t.u8() & 1 == 1;
    E { k: [k], t: ts as u64, tomb, v: [0x40 | (k << 2) | ts] }
}
/// (key asc, timestamp desc)
fn lt(a: &E, b: &E) -> bool {
    a.k[0] < b.k[0] || (a.k[0] == b.k[0] && a.t > b.t)
}
fn table<const N: usize>(t: &mut Tape, n: usize) -> [E; N] {
    let mut a = [E0; N];
    let mut i = 0;
    while i < n {
        a[i] = entry(t);
        i += 1;
    }
    a
}
fn sorted<const N: usize>(a: &[E; N], n: usize) -> bool {
    let mut ok = true;
    let mut i = 1;
    while i < n {
        ok &= lt(&a[i - 1], &a[i]);
        i += 1;
    }
    ok
}
fn distinct<const A: usize, const B: usize>(a: &[E; A], na: usize, b: &[E; B], nb: usize) -> bool {
    let mut ok = true;
    let mut i = 0;
    while i < na {
        let mut j = 0;
        while j < nb {
            ok &= lt(&a[i], &b[j]) || lt(&b[j], &a[i]);
            j += 1;
        }
        i += 1;
    }
    ok
}
/// Sorted union (plain two-way merge): the definition of what a merging cursor shows.
fn union<const A: usize, const B: usize, const T: usize>(a: &[E; A], na: usize, b: &[E; B], nb: usize) -> [E; T] {
    assert!(na + nb <= T);
    let mut r = [E0; T];
    let (mut i, mut j, mut n) = (0, 0, 0);
    while n < na + nb {
        if j >= nb || (i < na && lt(&a[i], &b[j])) {
            r[n] = a[i];
            i += 1;
        } else {
            r[n] = b[j];
            j += 1;
        }
        n += 1;
    }
    r
}

/// Apply one call (0 seek_to_first, 1 seek_to_last, 2 seek, 3 next, 4 prev) to both sides.
fn step<C: Cursor, const N: usize>(c: &mut C, spec: &mut ArrCursor<N>, op: u8, sk: u8) {
    let key = [sk];
    match op {
        0 => {
            assert!(c.seek_to_first().is_ok(), "seek_to_first returns Ok");
            spec.seek_to_first().unwrap();
        }
        1 => {
            assert!(c.seek_to_last().is_ok(), "seek_to_last returns Ok");
            spec.seek_to_last().unwrap();
        }
        2 => {
            assert!(c.seek(&key).is_ok(), "seek returns Ok");
            spec.seek(&key).unwrap();
        }
        3 => {
            assert!(c.next().is_ok(), "next returns Ok");
            spec.next().unwrap();
        }
        _ => {
            assert!(c.prev().is_ok(), "prev returns Ok");
            spec.prev().unwrap();
        }
    }
}

/// Run a K-call program (symbolic unless `ops` fixes the call sequence; seek keys always
/// symbolic, domain 0..4) and compare after every call.
fn program<C: Cursor, const N: usize, const K: usize>(
    c: &mut C,
    spec: &mut ArrCursor<N>,
    t: &mut Tape,
    ops: Option<[u8; K]>,
) -> (bool, bool) {
    let mut reversed = false; // a next directly after a prev or vice versa happened
    let mut last: u8 = 9;
    let mut positioned = false;
    let mut k = 0;
    while k < K {
        let op = match ops {
            Some(o) => o[k],
            None => t.u8() % 5,
        };
        let sk = t.u8() % 5;
        step(c, spec, op, sk);
        let got = obs_of(c);
        let want = spec.obs();
        #[cfg(not(kani))]
        if std::env::var("VERIF_TRACE").is_ok() {
            eprintln!("TRACE op={} sk={} got={:?} want={:?} spec.n={} spec.e={:?}", op, sk, got, want, spec.n, spec.e.iter().map(|e| (e.k[0], e.t, e.tomb)).collect::<Vec<_>>());
        }
        assert!(got == want, "cursor equals its definition after every call");
        reversed |= (last == 3 && op == 4) || (last == 4 && op == 3);
        positioned |= want.is_some();
        last = op;
        k += 1;
    }
    (reversed, positioned)
}

// ------------------------------------------------------------------ merging

fn merging<const CAP: usize, const T: usize, const K: usize>(
    t: &[u8],
    na: usize,
    nb: usize,
    ops: Option<[u8; K]>,
) {
    let mut t = Tape::new(t);
    let a: [E; CAP] = table(&mut t, na);
    let b: [E; CAP] = table(&mut t, nb);
    vassume!(sorted(&a, na) && sorted(&b, nb) && distinct(&a, na, &b, nb));
    let r: [E; T] = union(&a, na, &b, nb);
    let mut spec = ArrCursor::<T>::new(r, na + nb);
    let m = MergingCursor::new(vec![ArrCursor::<CAP>::new(a, na), ArrCursor::<CAP>::new(b, nb)]);
    assert!(m.is_ok(), "MergingCursor::new returns Ok");
    let mut m = m.unwrap();
    assert!(obs_of(&m) == None, "a new merging cursor is before the first entry");
    let ops_fixed = ops.is_some();
    let (reversed, positioned) = program::<_, T, K>(&mut m, &mut spec, &mut t, ops);
    vcover!(reversed || ops_fixed, "direction reversal");
    vcover!(positioned, "positioned on an entry");
    vcover!(na == 0 || nb == 0 || a[0].k[0] == b[0].k[0], "children share a key");
    core::mem::forget(m);
}
harness!(#[kani::stub(alloc::fmt::format, stub_format)] merge_2x2_k3, 32, |t| { merging::<2, 4, 3>(t, 2, 2, None) });
harness!(#[kani::stub(alloc::fmt::format, stub_format)] merge_2x2_k4, 32, |t| { merging::<2, 4, 4>(t, 2, 2, None) });
harness!(#[kani::stub(alloc::fmt::format, stub_format)] merge_2x2_k5, 32, |t| { merging::<2, 4, 5>(t, 2, 2, None) });
harness!(#[kani::stub(alloc::fmt::format, stub_format)] merge_3x1_k3, 32, |t| { merging::<3, 4, 3>(t, 3, 1, None) });
harness!(#[kani::stub(alloc::fmt::format, stub_format)] merge_2x0_k3, 32, |t| { merging::<2, 2, 3>(t, 2, 0, None) });
harness!(#[kani::stub(alloc::fmt::format, stub_format)] merge_0x2_k3, 32, |t| { merging::<2, 2, 3>(t, 0, 2, None) });
harness!(#[kani::stub(alloc::fmt::format, stub_format)] merge_3x2_k3, 32, |t| { merging::<3, 5, 3>(t, 3, 2, None) });

/// Three children: the merged stream contains every input entry exactly once, in order
/// (C05: a merge conserves the multiset), walked forward and backward.
fn merge3_conserves<const A: usize, const B: usize, const C: usize, const T: usize>(t: &[u8], backward: bool) {
    let mut t = Tape::new(t);
    let a: [E; 2] = table(&mut t, A);
    let b: [E; 2] = table(&mut t, B);
    let c: [E; 2] = table(&mut t, C);
    vassume!(sorted(&a, A) && sorted(&b, B) && sorted(&c, C));
    assert!(A <= 2 && B <= 2 && C <= 2 && A + B + C == T);
    vassume!(distinct(&a, A, &b, B) && distinct(&a, A, &c, C) && distinct(&b, B, &c, C));
    let mut m = MergingCursor::new(vec![
        ArrCursor::<2>::new(a, A),
        ArrCursor::<2>::new(b, B),
        ArrCursor::<2>::new(c, C),
    ])
    .unwrap();
    // the definition: the 3-way sorted union
    let ab: [E; 4] = union(&a, A, &b, B);
    let want: [E; T] = union(&ab, A + B, &c, C);
    vcover!(a[0].k[0] == b[0].k[0] && b[0].k[0] == c[0].k[0], "one key in all three children");
    vcover!(a[0].tomb && !b[0].tomb, "tombstone and value mixed");
    if backward {
        m.seek_to_last().unwrap();
        let mut n = T;
        while n > 0 {
            n -= 1;
            m.prev().unwrap();
            let e = want[n];
            assert!(obs_of(&m) == Some((e.k[0], e.t, if e.tomb { None } else { Some(e.v[0]) })), "backward walk yields the sorted union in reverse, each entry once");
        }
        m.prev().unwrap();
        assert!(obs_of(&m).is_none(), "backward walk ends");
        core::mem::forget(m);
        return;
    }
    // forward
    m.seek_to_first().unwrap();
    let mut out = [E0; T];
    let mut n = 0;
    while n < T {
        m.next().unwrap();
        match obs_of(&m) {
            Some((k, ts, v)) => out[n] = E { k: [k], t: ts, tomb: v.is_none(), v: [v.unwrap_or(0x40 | (k << 2) | ts as u8)] },
            None => assert!(false, "merged stream ended early"),
        }
        n += 1;
    }
    m.next().unwrap();
    assert!(obs_of(&m).is_none(), "merged stream has exactly A+B+C entries");
    assert!(sorted(&out, T), "merged stream strictly increasing in (key asc, timestamp desc)");
    // every input entry occurs in the output (with distinctness and equal counts: exactly once)
    let mut i = 0;
    while i < A {
        let mut f = false;
        let mut j = 0;
        while j < T { f |= out[j] == a[i]; j += 1; }
        assert!(f, "entry of child 0 present in merged stream");
        i += 1;
    }
    let mut i = 0;
    while i < B {
        let mut f = false;
        let mut j = 0;
        while j < T { f |= out[j] == b[i]; j += 1; }
        assert!(f, "entry of child 1 present in merged stream");
        i += 1;
    }
    let mut i = 0;
    while i < C {
        let mut f = false;
        let mut j = 0;
        while j < T { f |= out[j] == c[i]; j += 1; }
        assert!(f, "entry of child 2 present in merged stream");
        i += 1;
    }
    let mut i = 0;
    while i < T {
        assert!(out[i] == want[i], "forward walk yields the sorted union");
        i += 1;
    }
    core::mem::forget(m);
}
harness!(#[kani::stub(alloc::fmt::format, stub_format)] merge3_conserve_111, 32, |t| { merge3_conserves::<1, 1, 1, 3>(t, false) });
harness!(#[kani::stub(alloc::fmt::format, stub_format)] merge3_conserve_211, 32, |t| { merge3_conserves::<2, 1, 1, 4>(t, false) });
harness!(#[kani::stub(alloc::fmt::format, stub_format)] merge3_backward_111, 32, |t| { merge3_conserves::<1, 1, 1, 3>(t, true) });
harness!(#[kani::stub(alloc::fmt::format, stub_format)] merge3_backward_211, 32, |t| { merge3_conserves::<2, 1, 1, 4>(t, true) });
harness!(#[kani::stub(alloc::fmt::format, stub_format)] merge3_conserve_221, 32, |t| { merge3_conserves::<2, 2, 1, 5>(t, false) });

// ------------------------------------------------------------------ concatenating

fn concat<const T: usize, const K: usize>(
    t: &[u8],
    na: usize,
    nb: usize,
    ops: Option<[u8; K]>,
) {
    let mut t = Tape::new(t);
    let a: [E; 2] = table(&mut t, na);
    let b: [E; 2] = table(&mut t, nb);
    vassume!(sorted(&a, na) && sorted(&b, nb));
    // key-disjoint and ordered: every key of a is below every key of b
    if na > 0 && nb > 0 {
        vassume!(a[na - 1].k[0] < b[0].k[0]);
    }
    let mut r = [E0; T];
    let mut i = 0;
    while i < na { r[i] = a[i]; i += 1; }
    let mut j = 0;
    while j < nb { r[na + j] = b[j]; j += 1; }
    let mut spec = ArrCursor::<T>::new(r, na + nb);
    let c = ConcatenatingCursor::new(vec![ArrCursor::<2>::new(a, na), ArrCursor::<2>::new(b, nb)]);
    assert!(c.is_ok(), "ConcatenatingCursor::new returns Ok");
    let mut c = c.unwrap();
    let ops_fixed = ops.is_some();
    let (reversed, positioned) = program::<_, T, K>(&mut c, &mut spec, &mut t, ops);
    vcover!(reversed || ops_fixed, "direction reversal");
    vcover!(positioned, "positioned on an entry");
    vcover!(na == 0 || a[0].tomb, "first child starts with a tombstone");
    core::mem::forget(c);
}

/// Three children with an EMPTY middle child.
fn concat3_empty_middle<const K: usize>(t: &[u8], ops: Option<[u8; K]>) {
    let mut t = Tape::new(t);
    let a: [E; 2] = table(&mut t, 1);
    let b: [E; 2] = table(&mut t, 2);
    vassume!(sorted(&b, 2) && a[0].k[0] < b[0].k[0]);
    let r = [a[0], b[0], b[1]];
    let mut spec = ArrCursor::<3>::new(r, 3);
    let mut c = ConcatenatingCursor::new(vec![
        ArrCursor::<2>::new(a, 1),
        ArrCursor::<2>::new([E0; 2], 0),
        ArrCursor::<2>::new(b, 2),
    ])
    .unwrap();
    let ops_fixed = ops.is_some();
    let (reversed, positioned) = program::<_, 3, K>(&mut c, &mut spec, &mut t, ops);
    vcover!(reversed || ops_fixed, "direction reversal");
    vcover!(positioned, "positioned on an entry");
    core::mem::forget(c);
}

// ------------------------------------------------------------------ pruning

/// Definition: per key, the newest version not newer than `ts`, unless it is a tombstone.
fn prune<const N: usize>(a: &[E; N], n: usize, ts: u64) -> ([E; N], usize) {
    let mut out = [E0; N];
    let mut m = 0;
    let mut i = 0;
    while i < n {
        let mut newest = a[i].t <= ts;
        let mut j = 0;
        while j < i {
            if a[j].k[0] == a[i].k[0] && a[j].t <= ts {
                newest = false;
            }
            j += 1;
        }
        if newest && !a[i].tomb {
            out[m] = a[i];
            m += 1;
        }
        i += 1;
    }
    (out, m)
}
fn pruning<const N: usize, const K: usize>(t: &[u8], ops: Option<[u8; K]>) {
    let mut t = Tape::new(t);
    let a: [E; N] = table(&mut t, N);
    vassume!(sorted(&a, N));
    let ts = (t.u8() % 5) as u64;
    let (r, m) = prune(&a, N, ts);
    let mut spec = ArrCursor::<N>::new(r, m);
    let p = PruningCursor::new(ArrCursor::<N>::new(a, N), ts);
    assert!(p.is_ok(), "PruningCursor::new returns Ok");
    let mut p = Box::new(p.unwrap()); // heap-resident: see bounds()
    let ops_fixed = ops.is_some();
    let (reversed, positioned) = program::<_, N, K>(&mut *p, &mut spec, &mut t, ops);
    vcover!(reversed || ops_fixed, "direction reversal");
    vcover!(positioned, "positioned on an entry");
    vcover!(m < N && m > 0, "something pruned, something left");
    vcover!(a[0].tomb && a[0].t <= ts && a[1].k[0] == a[0].k[0], "tombstone shadows an older version");
    vcover!(a[0].t > ts && a[1].k[0] == a[0].k[0] && a[1].t <= ts, "version newer than the read timestamp is screened");
    core::mem::forget(p);
}

// ------------------------------------------------------------------ bounds

fn mk_bound(kind: u8, k: u8) -> Bound<[u8; 1]> {
    match kind {
        0 => Bound::Unbounded,
        1 => Bound::Included([k]),
        _ => Bound::Excluded([k]),
    }
}
fn in_bounds(k: u8, sk: u8, s: u8, ek: u8, e: u8) -> bool {
    let lo = match sk { 0 => true, 1 => k >= s, _ => k > s };
    let hi = match ek { 0 => true, 1 => k <= e, _ => k < e };
    lo && hi
}
fn restrict<const N: usize>(a: &[E; N], n: usize, sk: u8, s: u8, ek: u8, e: u8) -> ([E; N], usize) {
    let mut out = [E0; N];
    let mut m = 0;
    let mut i = 0;
    while i < n {
        if in_bounds(a[i].k[0], sk, s, ek, e) {
            out[m] = a[i];
            m += 1;
        }
        i += 1;
    }
    (out, m)
}
/// `SK`, `EK`: 0 unbounded, 1 included, 2 excluded (concrete per instance); bound keys symbolic.
fn bounds<const N: usize, const K: usize, const SK: u8, const EK: u8>(t: &[u8]) {
    let mut t = Tape::new(t);
    let a: [E; N] = table(&mut t, N);
    vassume!(sorted(&a, N));
    let s = t.u8() % 5;
    let e = t.u8() % 5;
    let (r, m) = restrict(&a, N, SK, s, EK, e);
    let mut spec = ArrCursor::<N>::new(r, m);
    let b = BoundsCursor::new(ArrCursor::<N>::new(a, N), &mk_bound(SK, s), &mk_bound(EK, e));
    assert!(b.is_ok(), "BoundsCursor::new returns Ok");
    // heap-resident on purpose: with the cursor (and the array its KeyRefs borrow from) in a
    // stack slot CBMC reported counterexamples that do not reproduce natively (DESIGN.md 1.2 rule 3)
    let mut b = Box::new(b.unwrap());
    assert!(obs_of(&*b) == None, "a new bounds cursor is before the first entry");
    let ops_fixed = false;
    let (reversed, positioned) = program::<_, N, K>(&mut *b, &mut spec, &mut t, None);
    vcover!(reversed || ops_fixed, "direction reversal");
    vcover!(positioned, "positioned on an entry");
    vcover!((SK == 0 && EK == 0) || m == 0, "empty or inverted range");
    vcover!((SK == 0 && EK == 0) || (m > 0 && m < N), "range cuts the table");
    core::mem::forget(b);
}
macro_rules! bounds_h {
    ($name:ident, $n:expr, $k:expr, $sk:expr, $ek:expr, $len:expr) => {
        harness!(#[kani::stub(alloc::fmt::format, stub_format)] $name, $len, |t| { bounds::<$n, $k, $sk, $ek>(t) });
    };
}
bounds_h!(bounds_3_k3_uu, 3, 3, 0, 0, 17);
bounds_h!(bounds_3_k3_ui, 3, 3, 0, 1, 17);
bounds_h!(bounds_3_k3_ue, 3, 3, 0, 2, 17);
bounds_h!(bounds_3_k3_iu, 3, 3, 1, 0, 17);
bounds_h!(bounds_3_k3_ii, 3, 3, 1, 1, 17);
bounds_h!(bounds_3_k3_ie, 3, 3, 1, 2, 17);
bounds_h!(bounds_3_k3_eu, 3, 3, 2, 0, 17);
bounds_h!(bounds_3_k3_ei, 3, 3, 2, 1, 17);
bounds_h!(bounds_3_k3_ee, 3, 3, 2, 2, 17);
bounds_h!(bounds_4_k4_ie, 4, 4, 1, 2, 22);
bounds_h!(bounds_4_k4_ei, 4, 4, 2, 1, 22);

// ------------------------------------------------------------------ composition

/// Bounds(Pruning(Merging([a, b]))) — the shape of a memtable / tree range scan — against
/// restrict(prune(union)).
fn composed<const K: usize, const SK: u8, const EK: u8>(t: &[u8], ops: Option<[u8; K]>) {
    let mut t = Tape::new(t);
    let a: [E; 2] = table(&mut t, 2);
    let b: [E; 2] = table(&mut t, 2);
    vassume!(sorted(&a, 2) && sorted(&b, 2) && distinct(&a, 2, &b, 2));
    let ts = (t.u8() % 5) as u64;
    let s = t.u8() % 5;
    let e = t.u8() % 5;
    let u: [E; 4] = union(&a, 2, &b, 2);
    let (p, pm) = prune(&u, 4, ts);
    let (r, m) = restrict(&p, pm, SK, s, EK, e);
    let mut spec = ArrCursor::<4>::new(r, m);
    let mc = MergingCursor::new(vec![ArrCursor::<2>::new(a, 2), ArrCursor::<2>::new(b, 2)]).unwrap();
    let pc = PruningCursor::new(mc, ts).unwrap();
    let mut bc = Box::new(BoundsCursor::new(pc, &mk_bound(SK, s), &mk_bound(EK, e)).unwrap());
    let ops_fixed = ops.is_some();
    let (reversed, positioned) = program::<_, 4, K>(&mut *bc, &mut spec, &mut t, ops);
    vcover!(reversed || ops_fixed, "direction reversal");
    vcover!(positioned, "positioned on an entry");
    vcover!(pm < 4 && m < pm && m > 0, "pruned and restricted");
    core::mem::forget(bc);
}

// call codes: 0 seek_to_first, 1 seek_to_last, 2 seek(symbolic key), 3 next, 4 prev
harness!(#[kani::stub(alloc::fmt::format, stub_format)] concat_2x2_snn, 32, |t| { concat::<4, 3>(t, 2, 2, Some([2, 3, 3])) });
harness!(#[kani::stub(alloc::fmt::format, stub_format)] concat_2x2_lpp, 32, |t| { concat::<4, 3>(t, 2, 2, Some([1, 4, 4])) });
harness!(#[kani::stub(alloc::fmt::format, stub_format)] concat_2x2_spn, 32, |t| { concat::<4, 3>(t, 2, 2, Some([2, 4, 3])) });
harness!(#[kani::stub(alloc::fmt::format, stub_format)] concat_2x2_fnp, 32, |t| { concat::<4, 3>(t, 2, 2, Some([0, 3, 4])) });
harness!(#[kani::stub(alloc::fmt::format, stub_format)] concat_2x2_snp, 32, |t| { concat::<4, 3>(t, 2, 2, Some([2, 3, 4])) });
harness!(#[kani::stub(alloc::fmt::format, stub_format)] concat_2x2_sps, 32, |t| { concat::<4, 3>(t, 2, 2, Some([2, 4, 2])) });
harness!(#[kani::stub(alloc::fmt::format, stub_format)] concat_0x2_snn, 32, |t| { concat::<2, 3>(t, 0, 2, Some([2, 3, 3])) });
harness!(#[kani::stub(alloc::fmt::format, stub_format)] concat_2x0_snn, 32, |t| { concat::<2, 3>(t, 2, 0, Some([2, 3, 3])) });
harness!(#[kani::stub(alloc::fmt::format, stub_format)] concat3_empty_middle_snn, 32, |t| { concat3_empty_middle::<3>(t, Some([2, 3, 3])) });
harness!(#[kani::stub(alloc::fmt::format, stub_format)] concat_0x2_lpp, 32, |t| { concat::<2, 3>(t, 0, 2, Some([1, 4, 4])) });
harness!(#[kani::stub(alloc::fmt::format, stub_format)] concat_2x0_lpp, 32, |t| { concat::<2, 3>(t, 2, 0, Some([1, 4, 4])) });
harness!(#[kani::stub(alloc::fmt::format, stub_format)] concat3_empty_middle_lpp, 32, |t| { concat3_empty_middle::<3>(t, Some([1, 4, 4])) });
harness!(#[kani::stub(alloc::fmt::format, stub_format)] concat_0x2_spn, 32, |t| { concat::<2, 3>(t, 0, 2, Some([2, 4, 3])) });
harness!(#[kani::stub(alloc::fmt::format, stub_format)] concat_2x0_spn, 32, |t| { concat::<2, 3>(t, 2, 0, Some([2, 4, 3])) });
harness!(#[kani::stub(alloc::fmt::format, stub_format)] concat3_empty_middle_spn, 32, |t| { concat3_empty_middle::<3>(t, Some([2, 4, 3])) });
harness!(#[kani::stub(alloc::fmt::format, stub_format)] prune_3_snn, 32, |t| { pruning::<3, 3>(t, Some([2, 3, 3])) });
harness!(#[kani::stub(alloc::fmt::format, stub_format)] prune_3_lpp, 32, |t| { pruning::<3, 3>(t, Some([1, 4, 4])) });
harness!(#[kani::stub(alloc::fmt::format, stub_format)] prune_3_spn, 32, |t| { pruning::<3, 3>(t, Some([2, 4, 3])) });
harness!(#[kani::stub(alloc::fmt::format, stub_format)] prune_3_fnp, 32, |t| { pruning::<3, 3>(t, Some([0, 3, 4])) });
harness!(#[kani::stub(alloc::fmt::format, stub_format)] prune_3_snp, 32, |t| { pruning::<3, 3>(t, Some([2, 3, 4])) });
harness!(#[kani::stub(alloc::fmt::format, stub_format)] prune_3_sps, 32, |t| { pruning::<3, 3>(t, Some([2, 4, 2])) });
harness!(#[kani::stub(alloc::fmt::format, stub_format)] prune_4_snn, 32, |t| { pruning::<4, 3>(t, Some([2, 3, 3])) });
harness!(#[kani::stub(alloc::fmt::format, stub_format)] prune_4_lpp, 32, |t| { pruning::<4, 3>(t, Some([1, 4, 4])) });
harness!(#[kani::stub(alloc::fmt::format, stub_format)] prune_4_spn, 32, |t| { pruning::<4, 3>(t, Some([2, 4, 3])) });
harness!(#[kani::stub(alloc::fmt::format, stub_format)] composed_ie_snp, 32, |t| { composed::<3, 1, 2>(t, Some([2, 3, 4])) });
harness!(#[kani::stub(alloc::fmt::format, stub_format)] composed_uu_snp, 32, |t| { composed::<3, 0, 0>(t, Some([2, 3, 4])) });
harness!(#[kani::stub(alloc::fmt::format, stub_format)] composed_ie_fnp, 32, |t| { composed::<3, 1, 2>(t, Some([0, 3, 4])) });
harness!(#[kani::stub(alloc::fmt::format, stub_format)] composed_uu_fnp, 32, |t| { composed::<3, 0, 0>(t, Some([0, 3, 4])) });
harness!(#[kani::stub(alloc::fmt::format, stub_format)] composed_ie_lpp, 32, |t| { composed::<3, 1, 2>(t, Some([1, 4, 4])) });
harness!(#[kani::stub(alloc::fmt::format, stub_format)] composed_uu_lpp, 32, |t| { composed::<3, 0, 0>(t, Some([1, 4, 4])) });

harness!(#[kani::stub(alloc::fmt::format, stub_format)] prune_3_s, 32, |t| { pruning::<3, 1>(t, Some([2])) });
harness!(#[kani::stub(alloc::fmt::format, stub_format)] prune_3_sn, 32, |t| { pruning::<3, 2>(t, Some([2, 3])) });
harness!(#[kani::stub(alloc::fmt::format, stub_format)] prune_3_fnn, 32, |t| { pruning::<3, 3>(t, Some([0, 3, 3])) });
harness!(#[kani::stub(alloc::fmt::format, stub_format)] prune_3_lp, 32, |t| { pruning::<3, 2>(t, Some([1, 4])) });
harness!(#[kani::stub(alloc::fmt::format, stub_format)] prune_3_sp, 32, |t| { pruning::<3, 2>(t, Some([2, 4])) });
harness!(#[kani::stub(alloc::fmt::format, stub_format)] prune_2_lpp, 32, |t| { pruning::<2, 3>(t, Some([1, 4, 4])) });
harness!(#[kani::stub(alloc::fmt::format, stub_format)] prune_2_spn, 32, |t| { pruning::<2, 3>(t, Some([2, 4, 3])) });

harness!(#[kani::stub(alloc::fmt::format, stub_format)] prune_2_lp, 32, |t| { pruning::<2, 2>(t, Some([1, 4])) });
harness!(#[kani::stub(alloc::fmt::format, stub_format)] prune_2_sp, 32, |t| { pruning::<2, 2>(t, Some([2, 4])) });

harness!(#[kani::stub(alloc::fmt::format, stub_format)] composed2_ie_sn, 32, |t| { composed::<2, 1, 2>(t, Some([2, 3])) });
harness!(#[kani::stub(alloc::fmt::format, stub_format)] composed2_uu_fnn, 32, |t| { composed::<3, 0, 0>(t, Some([0, 3, 3])) });

harness_list!(
    composed2_ie_sn, composed2_uu_fnn, prune_2_lp, prune_2_sp, prune_3_s, prune_3_sn, prune_3_fnn, prune_3_lp, prune_3_sp, prune_2_lpp, prune_2_spn, merge_2x2_k3, merge_2x2_k4, merge_2x2_k5, merge_3x1_k3, merge_2x0_k3, merge_0x2_k3, merge_3x2_k3, merge3_conserve_111, merge3_conserve_211, merge3_conserve_221, merge3_backward_111, merge3_backward_211, bounds_3_k3_uu, bounds_3_k3_ui, bounds_3_k3_ue, bounds_3_k3_iu, bounds_3_k3_ii, bounds_3_k3_ie, bounds_3_k3_eu, bounds_3_k3_ei, bounds_3_k3_ee, bounds_4_k4_ie, bounds_4_k4_ei, concat_2x2_snn, concat_2x2_lpp, concat_2x2_spn, concat_2x2_fnp, concat_2x2_snp, concat_2x2_sps, concat_0x2_snn, concat_2x0_snn, concat3_empty_middle_snn, concat_0x2_lpp, concat_2x0_lpp, concat3_empty_middle_lpp, concat_0x2_spn, concat_2x0_spn, concat3_empty_middle_spn, prune_3_snn, prune_3_lpp, prune_3_spn, prune_3_fnp, prune_3_snp, prune_3_sps, prune_4_snn, prune_4_lpp, prune_4_spn, composed_ie_snp, composed_uu_snp, composed_ie_fnp, composed_uu_fnp, composed_ie_lpp, composed_uu_lpp,
);
