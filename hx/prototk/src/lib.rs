//! C15 harnesses: varint (buffertk), zig-zag, tags, scalar field types, field iterator and one
//! derived message (prototk).  Public API only.
#![allow(clippy::all, dead_code, non_camel_case_types)]
#[macro_use]
#[path = "/verif/hk/vk.rs"]
mod vk;
#[path = "/verif/hk/serr.rs"]
mod serr;
use buffertk::{stack_pack, v64, Packable, Unpackable, Unpacker};
use prototk::field_types;
use prototk::{FieldIterator, FieldNumber, Tag, WireType};
use vk::Tape;

// ------------------------------------------------------------------ reference wire encoding

/// Independent LEB128 encoder: returns (bytes, length).
fn ref_varint(mut x: u64) -> ([u8; 10], usize) {
    let mut out = [0u8; 10];
    let mut n = 0;
    loop {
        let b = (x & 0x7f) as u8;
        x >>= 7;
        if x == 0 {
            out[n] = b;
            n += 1;
            break;
        }
        out[n] = b | 0x80;
        n += 1;
    }
    (out, n)
}
/// Independent decoder over at most 10 bytes: Some((value, consumed)) or None.
/// Bits beyond 64 are dropped (what a 64-bit reader can represent).
fn ref_unvarint(b: &[u8]) -> Option<(u64, usize)> {
    let mut v: u64 = 0;
    let mut i = 0;
    while i < b.len() && i < 10 {
        let part = (b[i] & 0x7f) as u64;
        if i < 9 {
            v |= part << (7 * i);
        } else {
            v |= (part & 1) << 63;
        }
        if b[i] & 0x80 == 0 {
            return Some((v, i + 1));
        }
        i += 1;
    }
    None
}

// ------------------------------------------------------------------ varint

harness_e!(varint_roundtrip, 8, |t| {
    let mut t = Tape::new(t);
    let x = t.u64();
    let v = v64::from(x);
    let sz = v.pack_sz();
    let (want, wn) = ref_varint(x);
    assert!(sz == wn, "pack_sz equals the LEB128 length");
    let mut buf = [0xa5u8; 16];
    v.pack(&mut buf[..sz]);
    let mut i = 0;
    while i < 16 {
        if i < sz {
            assert!(buf[i] == want[i], "packed bytes are the LEB128 encoding");
        } else {
            assert!(buf[i] == 0xa5, "pack writes exactly pack_sz bytes");
        }
        i += 1;
    }
    // exact buffer (slow path when sz < 10)
    match v64::unpack(&buf[..sz]) {
        Ok((y, rest)) => {
            let y: u64 = y.into();
            assert!(y == x && rest.len() == 0, "unpack(pack(x)) == x, all bytes consumed");
        }
        Err(_) => assert!(false, "unpack of a packed varint fails"),
    }
    // long buffer (unrolled fast path)
    match v64::unpack(&buf[..16]) {
        Ok((y, rest)) => {
            let y: u64 = y.into();
            assert!(y == x && rest.len() == 16 - sz, "fast path: unpack(pack(x)) == x, consumed pack_sz");
        }
        Err(_) => assert!(false, "fast-path unpack of a packed varint fails"),
    }
    vcover!(sz == 1, "1-byte varint");
    vcover!(sz == 5, "5-byte varint");
    vcover!(sz == 9, "9-byte varint");
    vcover!(sz == 10, "10-byte varint");
});

/// fast == slow == reference on every 11-byte tape.
harness_e!(varint_fast_eq_slow, 11, |t| {
    let fast = v64::unpack(&t[..11]);
    let model = ref_unvarint(&t[..10]);
    match (fast, model) {
        (Ok((v, rest)), Some((want, n))) => {
            let v: u64 = v.into();
            assert!(rest.len() == 11 - n, "fast path consumes the varint's length");
            if n < 10 || t[9] < 2 {
                assert!(v == want, "fast path value equals the reference decoding");
            }
            if n < 10 {
                // the same bytes in a short buffer go through the slow path
                match v64::unpack(&t[..n]) {
                    Ok((s, srest)) => {
                        let s: u64 = s.into();
                        assert!(s == want && srest.len() == 0, "slow path equals fast path");
                    }
                    Err(_) => assert!(false, "slow path rejects what the fast path accepts"),
                }
                if n > 1 {
                    assert!(v64::unpack(&t[..n - 1]).is_err(), "truncated varint is an error");
                }
            }
        }
        (Err(_), None) => {}
        (Ok(_), None) => assert!(false, "fast path accepts an unterminated varint"),
        (Err(_), Some(_)) => assert!(false, "fast path rejects a terminated varint"),
    }
    vcover!(model.is_none(), "unterminated 10 bytes");
    vcover!(matches!(model, Some((_, 10))), "10-byte varint");
    vcover!(matches!(model, Some((_, 3))), "3-byte varint");
    vcover!(matches!(model, Some((0, 2))), "non-canonical zero");
});

/// arbitrary tapes of every length 0..12: value-or-error, never a panic; agrees with the model.
fn varint_total<const L: usize>(t: &[u8]) {
    let r = v64::unpack(&t[..L]);
    let model = ref_unvarint(&t[..L]);
    match (r, model) {
        (Ok((v, rest)), Some((want, n))) => {
            let v: u64 = v.into();
            assert!(rest.len() == L - n, "consumed length equals the reference");
            if n < 10 || t[9] < 2 {
                assert!(v == want, "value equals the reference decoding");
            }
        }
        (Err(_), None) => {}
        (Ok(_), None) => assert!(false, "accepts an unterminated varint"),
        (Err(_), Some(_)) => assert!(false, "rejects a terminated varint"),
    }
    vcover!(L == 0 || model.is_some(), "decodable");
}
harness_e!(varint_total_0, 1, |t| { varint_total::<0>(t) });
harness_e!(varint_total_1, 1, |t| { varint_total::<1>(t) });
harness_e!(varint_total_5, 5, |t| { varint_total::<5>(t) });
harness_e!(varint_total_9, 9, |t| { varint_total::<9>(t) });
harness_e!(varint_total_10, 10, |t| { varint_total::<10>(t) });
harness_e!(varint_total_12, 12, |t| { varint_total::<12>(t) });

// ------------------------------------------------------------------ zig-zag

/// zig-zag through the public sint64 field type: every u64 payload u decodes to the i64 whose
/// definition-level encoding is u again (bijection), and the definition is n>=0 -> 2n, n<0 -> -2n-1.
harness_e!(zigzag_bijection, 8, |t| {
    let mut t = Tape::new(t);
    let u = t.u64();
    let (enc, n) = ref_varint(u);
    match field_types::sint64::unpack(&enc[..n]) {
        Ok((g, rest)) => {
            let x = g.0;
            let want = if x >= 0 { (x as u64).wrapping_mul(2) } else { (!(x as u64)).wrapping_mul(2).wrapping_add(1) };
            assert!(want == u && rest.len() == 0, "unzigzag inverts the zig-zag definition");
            let back = field_types::sint64(x);
            let mut buf = [0u8; 10];
            assert!(back.pack_sz() == n, "re-encoding has the same length");
            back.pack(&mut buf[..n]);
            let mut i = 0;
            while i < n {
                assert!(buf[i] == enc[i], "zigzag(unzigzag(u)) == u");
                i += 1;
            }
            vcover!(x == i64::MIN, "i64::MIN");
            vcover!(x == -1, "-1");
        }
        Err(_) => assert!(false, "sint64 rejects a valid varint"),
    }
});

// ------------------------------------------------------------------ tags

fn wire(i: u8) -> WireType {
    match i & 3 {
        0 => WireType::Varint,
        1 => WireType::SixtyFour,
        2 => WireType::LengthDelimited,
        _ => WireType::ThirtyTwo,
    }
}
harness_e!(tag_roundtrip, 5, |t| {
    let mut t = Tape::new(t);
    let f = t.u32();
    let w = wire(t.u8());
    let valid = f >= 1 && f <= (1 << 29) - 1 && !(f >= 19000 && f <= 19999);
    match FieldNumber::new(f) {
        Ok(fnum) => {
            assert!(valid, "accepted field number is in range and not reserved");
            assert!(fnum.get() == f, "field number preserved");
            let tag = Tag { field_number: fnum, wire_type: w };
            let sz = tag.pack_sz();
            let (want, wn) = ref_varint(((f as u64) << 3) | w.tag_bits() as u64);
            assert!(sz == wn, "tag pack_sz is the varint length of (field << 3 | wire type)");
            let mut buf = [0xa5u8; 8];
            tag.pack(&mut buf[..sz]);
            let mut i = 0;
            while i < 8 {
                if i < sz {
                    assert!(buf[i] == want[i], "tag bytes are the standard encoding");
                } else {
                    assert!(buf[i] == 0xa5, "tag pack writes exactly pack_sz bytes");
                }
                i += 1;
            }
            match Tag::unpack(&buf[..sz]) {
                Ok((back, rest)) => assert!(back == tag && rest.len() == 0, "tag round trip"),
                Err(_) => assert!(false, "unpack of a packed tag fails"),
            }
        }
        Err(_) => assert!(!valid, "valid field number rejected"),
    }
    vcover!(f == 19000, "first reserved");
    vcover!(f == 18999, "last before reserved");
    vcover!(f == (1 << 29) - 1, "largest field number");
    vcover!(f == 0, "zero");
});

harness_e!(tag_total_6, 6, |t| {
    match Tag::unpack(&t[..6]) {
        Ok((tag, rest)) => {
            let (v, n) = ref_unvarint(&t[..6]).unwrap();
            assert!(rest.len() == 6 - n, "consumed the varint");
            assert!(v <= u32::MAX as u64, "accepted tag fits 32 bits");
            let f = (v >> 3) as u32;
            assert!(tag.field_number.get() == f, "field number is tag >> 3");
            assert!(tag.wire_type.tag_bits() == (v & 7) as u32, "wire type is tag & 7");
            assert!(f >= 1 && !(f >= 19000 && f <= 19999), "reserved / zero field numbers rejected");
        }
        Err(_) => {}
    }
    vcover!(Tag::unpack(&t[..6]).is_ok(), "accepted");
    vcover!(Tag::unpack(&t[..6]).is_err(), "rejected");
});

// ------------------------------------------------------------------ scalar field types

macro_rules! varint_field {
    ($name:ident, $ft:ident, $nat:ty, $n:expr, $rd:ident, $enc:expr) => {
        harness_e!($name, $n, |t| {
            let mut t = Tape::new(t);
            let x = t.$rd() as $nat;
            let f = field_types::$ft(x);
            let sz = f.pack_sz();
            let enc: fn($nat) -> u64 = $enc;
            let (want, wn) = ref_varint(enc(x));
            assert!(sz == wn, "pack_sz equals the standard encoding's length");
            let mut buf = [0xa5u8; 12];
            f.pack(&mut buf[..sz]);
            let mut i = 0;
            while i < 12 {
                if i < sz {
                    assert!(buf[i] == want[i], "bytes are the standard wire encoding");
                } else {
                    assert!(buf[i] == 0xa5, "pack writes exactly pack_sz bytes");
                }
                i += 1;
            }
            match field_types::$ft::unpack(&buf[..sz]) {
                Ok((g, rest)) => assert!(g.0 == x && rest.len() == 0, "unpack(pack(x)) == x"),
                Err(_) => assert!(false, "unpack of a packed value fails"),
            }
            vcover!(sz == 1, "1 byte");
            vcover!(sz > 4, "more than 4 bytes");
        });
    };
}
varint_field!(field_uint64, uint64, u64, 8, u64, |x| x);
varint_field!(field_uint32, uint32, u32, 4, u32, |x| x as u64);
varint_field!(field_int64, int64, i64, 8, u64, |x| x as u64);
varint_field!(field_int32, int32, i32, 4, u32, |x| x as i64 as u64);
varint_field!(field_sint64, sint64, i64, 8, u64, |x| ((x << 1) ^ (x >> 63)) as u64);
varint_field!(field_sint32, sint32, i32, 4, u32, |x| (((x as i64) << 1) ^ ((x as i64) >> 63)) as u64);

macro_rules! fixed_field {
    ($name:ident, $ft:ident, $nat:ty, $w:expr, $rd:ident) => {
        harness_e!($name, $w, |t| {
            let mut t = Tape::new(t);
            let x = t.$rd() as $nat;
            let f = field_types::$ft(x);
            let sz = f.pack_sz();
            assert!(sz == $w, "fixed-width field size");
            let mut buf = [0xa5u8; 12];
            f.pack(&mut buf[..sz]);
            let le = x.to_le_bytes();
            let mut i = 0;
            while i < 12 {
                if i < $w {
                    assert!(buf[i] == le[i], "little-endian bytes");
                } else {
                    assert!(buf[i] == 0xa5, "pack writes exactly pack_sz bytes");
                }
                i += 1;
            }
            match field_types::$ft::unpack(&buf[..sz]) {
                Ok((g, rest)) => assert!(g.0 == x && rest.len() == 0, "unpack(pack(x)) == x"),
                Err(_) => assert!(false, "unpack of a packed value fails"),
            }
            assert!(field_types::$ft::unpack(&buf[..$w - 1]).is_err(), "short buffer is an error");
        });
    };
}
fixed_field!(field_fixed32, fixed32, u32, 4, u32);
fixed_field!(field_fixed64, fixed64, u64, 8, u64);
fixed_field!(field_sfixed32, sfixed32, i32, 4, u32);
fixed_field!(field_sfixed64, sfixed64, i64, 8, u64);

harness_e!(field_float_double, 12, |t| {
    let mut t = Tape::new(t);
    let a = f32::from_bits(t.u32());
    let b = f64::from_bits(t.u64());
    let mut buf = [0u8; 8];
    let fa = field_types::float(a);
    assert!(fa.pack_sz() == 4, "float is 4 bytes");
    fa.pack(&mut buf[..4]);
    assert!(buf[..4] == a.to_bits().to_le_bytes(), "float bytes are the little-endian bit pattern");
    match field_types::float::unpack(&buf[..4]) {
        Ok((g, rest)) => assert!(g.0.to_bits() == a.to_bits() && rest.len() == 0, "float round trip, bit for bit (NaN payloads included)"),
        Err(_) => assert!(false, "float unpack fails"),
    }
    let fb = field_types::double(b);
    assert!(fb.pack_sz() == 8, "double is 8 bytes");
    fb.pack(&mut buf[..8]);
    assert!(buf[..8] == b.to_bits().to_le_bytes(), "double bytes are the little-endian bit pattern");
    match field_types::double::unpack(&buf[..8]) {
        Ok((g, rest)) => assert!(g.0.to_bits() == b.to_bits() && rest.len() == 0, "double round trip, bit for bit"),
        Err(_) => assert!(false, "double unpack fails"),
    }
    vcover!(a.is_nan(), "NaN");
    vcover!(b.is_infinite(), "infinity");
});

harness_e!(field_bool, 2, |t| {
    let b = t[0] & 1 == 1;
    let f = field_types::Bool(b);
    assert!(f.pack_sz() == 1, "bool is one byte");
    let mut buf = [0u8; 1];
    f.pack(&mut buf);
    assert!(buf[0] == b as u8, "bool byte");
    match field_types::Bool::unpack(&buf) {
        Ok((g, rest)) => assert!(g.0 == b && rest.len() == 0, "bool round trip"),
        Err(_) => assert!(false, "bool unpack fails"),
    }
});

fn field_bytes_n<const L: usize>(t: &[u8]) {
    let mut t = Tape::new(t);
    let payload: [u8; L] = t.arr();
    let f = field_types::bytes(&payload);
    let sz = f.pack_sz();
    assert!(sz == L + 1, "bytes field is length prefix plus payload");
    let mut buf = [0xa5u8; 8];
    f.pack(&mut buf[..sz]);
    assert!(buf[0] == L as u8, "length prefix");
    let mut i = 0;
    while i < L {
        assert!(buf[1 + i] == payload[i], "payload bytes verbatim");
        i += 1;
    }
    assert!(buf[sz] == 0xa5, "pack writes exactly pack_sz bytes");
    match field_types::bytes::unpack(&buf[..sz]) {
        Ok((g, rest)) => {
            assert!(g.0.len() == L && rest.len() == 0, "bytes round trip length");
            let mut i = 0;
            while i < L {
                assert!(g.0[i] == payload[i], "bytes round trip");
                i += 1;
            }
        }
        Err(_) => assert!(false, "bytes unpack fails"),
    }
    if L > 0 {
        assert!(field_types::bytes::unpack(&buf[..sz - 1]).is_err(), "truncated payload is an error");
    }
}
harness_e!(field_bytes_0, 1, |t| { field_bytes_n::<0>(t) });
harness_e!(field_bytes_3, 3, |t| { field_bytes_n::<3>(t) });

// ------------------------------------------------------------------ field iterator on arbitrary bytes

fn field_iter_total<const L: usize>(t: &[u8]) {
    let buf = &t[..L];
    let mut err = None;
    let mut it = FieldIterator::new(buf, &mut err);
    let mut consumed_before = 0usize;
    let mut n = 0;
    while n <= L {
        let before = it.remain().len();
        match it.next() {
            None => break,
            Some((_tag, payload)) => {
                let after = it.remain().len();
                assert!(after < before, "every field consumes input");
                assert!(payload.len() <= before - after, "payload lies inside the consumed bytes");
                consumed_before += before - after;
            }
        }
        n += 1;
    }
    assert!(consumed_before <= L, "never consumes more than the buffer");
    assert!(n <= L, "terminates within L fields");
    vcover!(n >= 1, "at least one field parsed");
    core::mem::forget(err);
}
harness_e!(field_iter_total_0, 1, |t| { field_iter_total::<0>(t) });
harness_e!(field_iter_total_2, 2, |t| { field_iter_total::<2>(t) });
harness_e!(field_iter_total_4, 4, |t| { field_iter_total::<4>(t) });
harness_e!(field_iter_total_6, 6, |t| { field_iter_total::<6>(t) });

// ------------------------------------------------------------------ one derived message

#[derive(Clone, Debug, Default, prototk_derive::Message, PartialEq)]
pub struct Two {
    #[prototk(1, uint64)]
    a: u64,
    #[prototk(3, sint32)]
    b: i32,
}

harness_e!(message_roundtrip, 12, |t| {
    let mut t = Tape::new(t);
    let m = Two { a: t.u64(), b: t.u32() as i32 };
    let sz = stack_pack(&m).pack_sz();
    let (wa, na) = ref_varint(m.a);
    let (wb, nb) = ref_varint((((m.b as i64) << 1) ^ ((m.b as i64) >> 63)) as u64);
    assert!(sz == 2 + na + nb, "message size is the sum of its standard field encodings");
    let mut buf = [0xa5u8; 20];
    stack_pack(&m).into_slice(&mut buf[..sz]);
    assert!(buf[0] == 0x08 && buf[1 + na] == 0x18, "tags: field 1 varint, field 3 varint");
    let mut i = 0;
    while i < na {
        assert!(buf[1 + i] == wa[i], "field 1 payload is the standard varint");
        i += 1;
    }
    let mut i = 0;
    while i < nb {
        assert!(buf[2 + na + i] == wb[i], "field 3 payload is the standard zig-zag varint");
        i += 1;
    }
    assert!(buf[sz] == 0xa5, "pack writes exactly pack_sz bytes");
    let mut up = Unpacker::new(&buf[..sz]);
    let got: Result<Two, _> = up.unpack();
    match got {
        Ok(g) => assert!(g == m && up.remain().len() == 0, "unpack(pack(m)) == m"),
        Err(_) => assert!(false, "unpack of a packed message fails"),
    }
    vcover!(m.b < 0, "negative sint32");
    vcover!(na == 10, "10-byte field");
});

/// unknown fields are skipped without disturbing known ones.
harness_e!(message_unknown_field, 10, |t| {
    let mut t = Tape::new(t);
    let a = t.u8() as u64;   // 1-byte varint class
    let b = (t.u8() & 0x3f) as i32; // 1-byte zig-zag class
    let junk = t.u8() & 0x7f;
    let pos = t.u8() % 3;
    // known: 08 a' | 18 b'   unknown: field 2 varint (10 junk)
    let a1 = (a & 0x7f) as u8;
    let bz = ((b << 1) ^ (b >> 31)) as u8;
    let known_a = [0x08u8, a1];
    let known_b = [0x18u8, bz];
    let unk = [0x10u8, junk];
    let mut buf = [0u8; 6];
    let order: [&[u8; 2]; 3] = match pos {
        0 => [&unk, &known_a, &known_b],
        1 => [&known_a, &unk, &known_b],
        _ => [&known_a, &known_b, &unk],
    };
    let mut i = 0;
    while i < 3 {
        buf[2 * i] = order[i][0];
        buf[2 * i + 1] = order[i][1];
        i += 1;
    }
    let mut up = Unpacker::new(&buf[..]);
    let got: Result<Two, _> = up.unpack();
    match got {
        Ok(g) => assert!(g.a == (a & 0x7f) && g.b == b, "known fields unaffected by an unknown field"),
        Err(_) => assert!(false, "message with an unknown field is rejected"),
    }
    vcover!(pos == 0, "unknown field first");
    vcover!(pos == 2, "unknown field last");
});

/// arbitrary bytes into the derived message: value or error, no panic.
fn message_total<const L: usize>(t: &[u8]) {
    let mut up = Unpacker::new(&t[..L]);
    let got: Result<Two, _> = up.unpack();
    vcover!(got.is_ok(), "accepted");
    vcover!(L == 0 || got.is_err(), "rejected");
    core::mem::forget(got);
}
harness_e!(message_total_0, 1, |t| { message_total::<0>(t) });
harness_e!(message_total_3, 3, |t| { message_total::<3>(t) });
harness_e!(message_total_5, 5, |t| { message_total::<5>(t) });

harness_list!(
    varint_roundtrip, varint_fast_eq_slow, varint_total_0, varint_total_1, varint_total_5, varint_total_9,
    varint_total_10, varint_total_12, zigzag_bijection, tag_roundtrip, tag_total_6,
    field_uint64, field_uint32, field_int64, field_int32, field_sint64, field_sint32,
    field_fixed32, field_fixed64, field_sfixed32, field_sfixed64, field_float_double, field_bool,
    field_bytes_0, field_bytes_3,
    field_iter_total_0, field_iter_total_2, field_iter_total_4, field_iter_total_6,
    message_roundtrip, message_unknown_field, message_total_0, message_total_3, message_total_5,
);
