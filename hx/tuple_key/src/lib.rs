//! C16 harnesses for the field-numbered format (`tuple_key`), public API only.
#![allow(clippy::all, dead_code)]
#[macro_use]
#[path = "/verif/hk/vk.rs"]
mod vk;
#[path = "/verif/hk/serr.rs"]
mod serr;
use core::cmp::Ordering;
use prototk::FieldNumber;
use tuple_key::{Direction, Element, TupleKey, TupleKeyParser};
use vk::Tape;

#[cfg(kani)]
fn stub_format(_: core::fmt::Arguments<'_>) -> String {
    String::new()
}

fn cmp_bytes(a: &[u8], b: &[u8]) -> Ordering {
    let mut i = 0;
    while i < a.len() && i < b.len() {
        if a[i] != b[i] {
            return if a[i] < b[i] { Ordering::Less } else { Ordering::Greater };
        }
        i += 1;
    }
    a.len().cmp(&b.len())
}
fn dir(reverse: bool) -> Direction {
    if reverse { Direction::Reverse } else { Direction::Forward }
}
fn key1<E: Element>(f: u32, e: E, d: Direction) -> TupleKey {
    let mut k = TupleKey::default();
    k.extend_with_key(FieldNumber::must(f), e, d);
    k
}

// ------------------------------------------------------------------ integers, both directions

macro_rules! int_harness {
    ($name:ident, $ty:ty, $n:expr, $rd:ident, $rev:expr) => {
        harness_e!($name, 2 * $n, |t| {
            let mut t = Tape::new(t);
            let a = t.$rd() as $ty;
            let b = t.$rd() as $ty;
            let d = dir($rev);
            let ka = key1(1, a, d);
            let kb = key1(1, b, d);
            let want = if $rev { b.cmp(&a) } else { a.cmp(&b) };
            assert!(cmp_bytes(ka.as_bytes(), kb.as_bytes()) == want, "encoded order equals value order (reversed when descending)");
            let mut p = TupleKeyParser::new(&ka);
            assert!(p.parse_next_with_key::<$ty>(FieldNumber::must(1), d) == Ok(a), "decode returns the value");
            assert!(p.peek_next() == Ok(None), "decode consumes the whole key");
            vcover!(a < b, "a < b");
            vcover!(a > b, "a > b");
            core::mem::forget(ka);
            core::mem::forget(kb);
        });
    };
}
int_harness!(u32_fwd, u32, 4, u32, false);
int_harness!(u32_rev, u32, 4, u32, true);
int_harness!(i32_fwd, i32, 4, u32, false);
int_harness!(i32_rev, i32, 4, u32, true);
int_harness!(u64_fwd, u64, 8, u64, false);
int_harness!(u64_rev, u64, 8, u64, true);
int_harness!(i64_fwd, i64, 8, u64, false);
int_harness!(i64_rev, i64, 8, u64, true);

/// Order only (no decode): the decoding half drags in the tag parser and its error paths and
/// does not finish together with two symbolic 64-bit values.
macro_rules! int_order {
    ($name:ident, $ty:ty, $n:expr, $rd:ident, $rev:expr) => {
        harness_e!($name, 2 * $n, |t| {
            let mut t = Tape::new(t);
            let a = t.$rd() as $ty;
            let b = t.$rd() as $ty;
            let d = dir($rev);
            let ka = key1(1, a, d);
            let kb = key1(1, b, d);
            let want = if $rev { b.cmp(&a) } else { a.cmp(&b) };
            assert!(cmp_bytes(ka.as_bytes(), kb.as_bytes()) == want, "encoded order equals value order (reversed when descending)");
            assert!(ka.as_bytes().len() == kb.as_bytes().len(), "fixed-width encodings have equal length");
            vcover!(a < b, "a < b");
            vcover!(a > b, "a > b");
            core::mem::forget(ka);
            core::mem::forget(kb);
        });
    };
}
int_order!(u64_order_fwd, u64, 8, u64, false);
int_order!(u64_order_rev, u64, 8, u64, true);
int_order!(i64_order_fwd, i64, 8, u64, false);
int_order!(i64_order_rev, i64, 8, u64, true);
int_order!(u32_order_rev, u32, 4, u32, true);
int_order!(i32_order_fwd, i32, 4, u32, false);
/// Decode of one value (round trip), both directions.
macro_rules! int_rt {
    ($name:ident, $ty:ty, $n:expr, $rd:ident) => {
        harness_e!($name, $n + 1, |t| {
            let mut t = Tape::new(t);
            let a = t.$rd() as $ty;
            let d = dir(t.bool());
            let ka = key1(1, a, d);
            let mut p = TupleKeyParser::new(&ka);
            assert!(p.parse_next_with_key::<$ty>(FieldNumber::must(1), d) == Ok(a), "decode returns the value");
            vcover!(d == Direction::Reverse, "descending");
            core::mem::forget(ka);
        });
    };
}
int_rt!(u64_rt, u64, 8, u64);
int_rt!(i64_rt, i64, 8, u64);
int_rt!(i32_rt, i32, 4, u32);

// ------------------------------------------------------------------ strings (ASCII contents, concrete lengths)

fn ascii<const L: usize>(t: &mut Tape) -> ([u8; L], String) {
    let mut a: [u8; L] = t.arr();
    let mut i = 0;
    while i < L {
        a[i] &= 0x7f;
        i += 1;
    }
    let s = String::from_utf8(a.to_vec()).unwrap();
    (a, s)
}
fn is_prefix(a: &[u8], b: &[u8]) -> bool {
    let mut ok = a.len() <= b.len();
    let mut i = 0;
    while i < a.len() && i < b.len() {
        ok &= a[i] == b[i];
        i += 1;
    }
    ok
}
/// `MODE`: 0 forward; 1 descending, pairs where neither string is a prefix of the other;
/// 2 descending, only pairs where one is a proper prefix of the other (isolates a known finding).
fn string_pair<const LA: usize, const LB: usize, const MODE: u8>(t: &[u8]) {
    let mut t = Tape::new(t);
    let (a, sa) = ascii::<LA>(&mut t);
    let (b, sb) = ascii::<LB>(&mut t);
    let prefix = is_prefix(&a, &b) || is_prefix(&b, &a);
    if MODE == 1 {
        vassume!(!prefix);
    }
    if MODE == 2 {
        vassume!(prefix && LA != LB);
    }
    let d = dir(MODE != 0);
    let ka = key1(2, sa, d);
    let kb = key1(2, sb, d);
    let natural = cmp_bytes(&a, &b);
    let want = if MODE != 0 { natural.reverse() } else { natural };
    assert!(cmp_bytes(ka.as_bytes(), kb.as_bytes()) == want, "encoded order equals string order (reversed when descending)");
    let mut p = TupleKeyParser::new(&ka);
    match p.parse_next_with_key::<String>(FieldNumber::must(2), d) {
        Ok(s) => assert!(cmp_bytes(s.as_bytes(), &a) == Ordering::Equal, "decode returns the string"),
        Err(_) => assert!(false, "decode of an encoding fails"),
    }
    assert!(p.peek_next() == Ok(None), "decode consumes the whole key");
    vcover!(LA == 0 || a[0] == 0, "NUL byte in a");
    vcover!(LA == 0 || a[LA - 1] == 0x7f, "0x7f byte in a");
    core::mem::forget(ka);
    core::mem::forget(kb);
}
macro_rules! str_h {
    ($name:ident, $la:expr, $lb:expr, $mode:expr) => {
        harness_e!($name, $la + $lb + 1, |t| { string_pair::<$la, $lb, $mode>(t) });
    };
}
str_h!(str_fwd_0_1, 0, 1, 0);
str_h!(str_fwd_1_1, 1, 1, 0);
str_h!(str_fwd_1_2, 1, 2, 0);
str_h!(str_fwd_2_2, 2, 2, 0);
str_h!(str_fwd_2_3, 2, 3, 0);
str_h!(str_fwd_3_3, 3, 3, 0);
str_h!(str_fwd_1_4, 1, 4, 0);
str_h!(str_fwd_4_4, 4, 4, 0);
str_h!(str_fwd_1_7, 1, 7, 0);
str_h!(str_rev_1_1, 1, 1, 1);
str_h!(str_rev_2_2, 2, 2, 1);
str_h!(str_rev_1_2, 1, 2, 1);
str_h!(str_rev_2_3, 2, 3, 1);
str_h!(str_rev_prefix_0_1, 0, 1, 2);
str_h!(str_rev_prefix_1_2, 1, 2, 2);

// ------------------------------------------------------------------ tuples and prefix contiguity

/// (u64 dir0, string[L] dir1) vs same: lexicographic with per-element direction.
fn tuple_u64_str<const L: usize>(t: &[u8], r0: bool) {
    let mut t = Tape::new(t);
    let (a0, b0) = (t.u64(), t.u64());
    let (a1, s1) = ascii::<L>(&mut t);
    let (b1, s2) = ascii::<L>(&mut t);
    let mut ka = TupleKey::default();
    ka.extend_with_key(FieldNumber::must(1), a0, dir(r0));
    ka.extend_with_key(FieldNumber::must(2), s1, Direction::Forward);
    let mut kb = TupleKey::default();
    kb.extend_with_key(FieldNumber::must(1), b0, dir(r0));
    kb.extend_with_key(FieldNumber::must(2), s2, Direction::Forward);
    let c0 = if r0 { b0.cmp(&a0) } else { a0.cmp(&b0) };
    let want = c0.then(cmp_bytes(&a1, &b1));
    assert!(cmp_bytes(ka.as_bytes(), kb.as_bytes()) == want, "tuple order is element-by-element");
    let mut p = TupleKeyParser::new(&ka);
    assert!(p.parse_next_with_key::<u64>(FieldNumber::must(1), dir(r0)) == Ok(a0), "first element decodes");
    assert!(p.parse_next_with_key::<String>(FieldNumber::must(2), Direction::Forward).map(|s| cmp_bytes(s.as_bytes(), &a1) == Ordering::Equal) == Ok(true), "second element decodes");
    assert!(p.peek_next() == Ok(None), "decode consumes the whole key");
    vcover!(a0 == b0 && a1[0] < b1[0], "decided by the second element");
    core::mem::forget(ka);
    core::mem::forget(kb);
}
harness_e!(tuple_u64f_str1, 18, |t| { tuple_u64_str::<1>(t, false) });
harness_e!(tuple_u64r_str1, 18, |t| { tuple_u64_str::<1>(t, true) });

/// (string[LA] , i32) vs (string[LB], i32): a shorter first element must not let the second
/// leak into the comparison of the first.
fn tuple_str_i32<const LA: usize, const LB: usize>(t: &[u8]) {
    let mut t = Tape::new(t);
    let (a0, sa) = ascii::<LA>(&mut t);
    let (b0, sb) = ascii::<LB>(&mut t);
    let (a1, b1) = (t.u32() as i32, t.u32() as i32);
    let mut ka = TupleKey::default();
    ka.extend_with_key(FieldNumber::must(1), sa, Direction::Forward);
    ka.extend_with_key(FieldNumber::must(2), a1, Direction::Forward);
    let mut kb = TupleKey::default();
    kb.extend_with_key(FieldNumber::must(1), sb, Direction::Forward);
    kb.extend_with_key(FieldNumber::must(2), b1, Direction::Forward);
    let want = cmp_bytes(&a0, &b0).then(a1.cmp(&b1));
    assert!(cmp_bytes(ka.as_bytes(), kb.as_bytes()) == want, "tuple order is element-by-element");
    vcover!(LA != LB || (cmp_bytes(&a0, &b0) == Ordering::Equal && a1 < b1), "decided by the second element");
    core::mem::forget(ka);
    core::mem::forget(kb);
}
harness_e!(tuple_str1_2_i32, 11, |t| { tuple_str_i32::<1, 2>(t) });
harness_e!(tuple_str2_2_i32, 12, |t| { tuple_str_i32::<2, 2>(t) });

/// s < s'  =>  enc(s) < enc(s.e) < enc(s')  for s, s' = (u64) and (string), e a further element.
harness_e!(prefix_contiguity_u64, 26, |t| {
    let mut t = Tape::new(t);
    let (s, s2) = (t.u64(), t.u64());
    vassume!(s < s2);
    let ks = key1(1, s, Direction::Forward);
    let ks2 = key1(1, s2, Direction::Forward);
    let e = t.u64();
    let which = t.u8() % 3;
    let mut ext = key1(1, s, Direction::Forward);
    match which {
        0 => ext.extend_with_key(FieldNumber::must(2), e, Direction::Forward),
        1 => ext.extend_with_key(FieldNumber::must(2), e as i64, Direction::Reverse),
        _ => ext.extend(FieldNumber::must(2)),
    }
    assert!(cmp_bytes(ks.as_bytes(), ext.as_bytes()) == Ordering::Less, "extension sorts after its prefix");
    assert!(cmp_bytes(ext.as_bytes(), ks2.as_bytes()) == Ordering::Less, "extension sorts before every larger prefix");
    vcover!(s + 1 == s2, "adjacent prefixes");
    core::mem::forget(ks);
    core::mem::forget(ks2);
    core::mem::forget(ext);
});
fn prefix_contiguity_str<const LA: usize, const LB: usize>(t: &[u8]) {
    let mut t = Tape::new(t);
    let (a, sa) = ascii::<LA>(&mut t);
    let (b, sb) = ascii::<LB>(&mut t);
    vassume!(cmp_bytes(&a, &b) == Ordering::Less);
    let ks = key1(1, sa.clone(), Direction::Forward);
    let ks2 = key1(1, sb, Direction::Forward);
    let e = t.u64();
    let mut ext = key1(1, sa, Direction::Forward);
    ext.extend_with_key(FieldNumber::must(2), e, Direction::Forward);
    assert!(cmp_bytes(ks.as_bytes(), ext.as_bytes()) == Ordering::Less, "extension sorts after its prefix");
    assert!(cmp_bytes(ext.as_bytes(), ks2.as_bytes()) == Ordering::Less, "extension sorts before every larger prefix");
    vcover!(LA >= LB || is_prefix(&a, &b), "s is a proper prefix of s'");
    core::mem::forget(ks);
    core::mem::forget(ks2);
    core::mem::forget(ext);
}
harness_e!(prefix_contiguity_str_1_2, 12, |t| { prefix_contiguity_str::<1, 2>(t) });
harness_e!(prefix_contiguity_str_2_2, 13, |t| { prefix_contiguity_str::<2, 2>(t) });

// ------------------------------------------------------------------ total decoders

/// Every parser entry on an arbitrary key of concrete length L: Ok/Err, no panic.
fn decode_total<const L: usize>(t: &[u8]) {
    let mut t = Tape::new(t);
    let raw: [u8; L] = t.arr();
    let which = t.u8() % 6;
    let rev = t.u8() & 1 == 1;
    let f = FieldNumber::must(1 + (t.u8() % 3) as u32);
    let tk = TupleKey::from(&raw[..]);
    let mut p = TupleKeyParser::new(&tk);
    let _ = p.peek_next();
    match which {
        0 => { let _ = p.parse_next_with_key::<u32>(f, dir(rev)); }
        1 => { let _ = p.parse_next_with_key::<u64>(f, dir(rev)); }
        2 => { let _ = p.parse_next_with_key::<i32>(f, dir(rev)); }
        3 => { let _ = p.parse_next_with_key::<i64>(f, dir(rev)); }
        4 => { let _ = p.parse_next_with_key::<String>(f, dir(rev)); }
        _ => { let _ = p.parse_next(f, dir(rev)); }
    }
    let _ = p.peek_next();
    let mut n = 0;
    let mut total = 0;
    let mut it = tk.iter();
    while n <= L {
        match it.next() {
            Some(e) => total += e.len(),
            None => break,
        }
        n += 1;
    }
    assert!(total == L, "the element iterator partitions the key");
    vcover!(which == 4, "string path");
    core::mem::forget(tk);
}
harness_e!(decode_total_0, 4, |t| { decode_total::<0>(t) });
harness_e!(decode_total_2, 6, |t| { decode_total::<2>(t) });
harness_e!(decode_total_4, 8, |t| { decode_total::<4>(t) });
harness_e!(decode_total_6, 10, |t| { decode_total::<6>(t) });

/// The element iterator alone on an arbitrary key of concrete length L: no panic, and the
/// elements partition the key (every byte in exactly one element, in order).  Cheap enough
/// for the quick tier; the parser entry points on arbitrary bytes are in decode_total_*.
fn iter_partition<const L: usize>(t: &[u8]) {
    let mut t = Tape::new(t);
    let raw: [u8; L] = t.arr();
    let tk = TupleKey::from(&raw[..]);
    let mut n = 0;
    let mut total = 0;
    let mut it = tk.iter();
    while n <= L {
        match it.next() {
            Some(e) => {
                assert!(e.len() >= 1, "elements are non-empty");
                let mut j = 0;
                while j < e.len() {
                    assert!(e[j] == raw[total + j], "elements are consecutive slices of the key");
                    if j + 1 < e.len() {
                        assert!(e[j] & 1 == 1, "only the last byte of an element has the low bit clear");
                    }
                    j += 1;
                }
                total += e.len();
            }
            None => break,
        }
        n += 1;
    }
    assert!(total == L, "the element iterator partitions the key");
    assert!(it.next().is_none(), "the iterator stays exhausted");
    vcover!(L == 0 || raw[L - 1] & 1 == 1, "key ends in a continuation byte (a truncated element)");
    core::mem::forget(tk);
}
harness_e!(iter_partition_1, 1, |t| { iter_partition::<1>(t) });
harness_e!(iter_partition_3, 3, |t| { iter_partition::<3>(t) });
harness_e!(iter_partition_5, 5, |t| { iter_partition::<5>(t) });

harness_list!(
    u64_order_fwd, u64_order_rev, i64_order_fwd, i64_order_rev, u32_order_rev, i32_order_fwd, u64_rt, i64_rt, i32_rt,
    iter_partition_1, iter_partition_3, iter_partition_5,
    u32_fwd, u32_rev, i32_fwd, i32_rev, u64_fwd, u64_rev, i64_fwd, i64_rev,
    str_fwd_0_1, str_fwd_1_1, str_fwd_1_2, str_fwd_2_2, str_fwd_2_3, str_fwd_3_3, str_fwd_1_4, str_fwd_4_4, str_fwd_1_7,
    str_rev_1_1, str_rev_2_2, str_rev_1_2, str_rev_2_3, str_rev_prefix_0_1, str_rev_prefix_1_2,
    tuple_u64f_str1, tuple_u64r_str1, tuple_str1_2_i32, tuple_str2_2_i32,
    prefix_contiguity_u64, prefix_contiguity_str_1_2, prefix_contiguity_str_2_2,
    decode_total_0, decode_total_2, decode_total_4, decode_total_6,
);
