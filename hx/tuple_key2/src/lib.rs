//! C16 harnesses for the compact format (`tuple_key2`), public API only.
#![allow(clippy::all, dead_code)]
#[macro_use]
#[path = "/verif/hk/vk.rs"]
mod vk;
use core::cmp::Ordering;
use tuple_key2::{TupleKey, TupleKeyBuilder, TupleKeyParser};
use vk::Tape;

fn cmp_bytes(a: &[u8], b: &[u8]) -> Ordering {
    // plain lexicographic comparison, written out (memcmp semantics)
    let mut i = 0;
    while i < a.len() && i < b.len() {
        if a[i] != b[i] {
            return if a[i] < b[i] { Ordering::Less } else { Ordering::Greater };
        }
        i += 1;
    }
    a.len().cmp(&b.len())
}

// ------------------------------------------------------------------ integers, full width

macro_rules! int_harness {
    ($name:ident, $ty:ty, $put:ident, $get:ident, $n:expr, $rd:ident) => {
        harness!($name, 2 * $n, |t| {
            let mut t = Tape::new(t);
            let a = t.$rd() as $ty;
            let b = t.$rd() as $ty;
            let ka = TupleKey::builder().$put(a).build();
            let kb = TupleKey::builder().$put(b).build();
            assert!(cmp_bytes(ka.as_bytes(), kb.as_bytes()) == a.cmp(&b), "encoded order equals value order");
            assert!(ka.as_bytes().cmp(kb.as_bytes()) == a.cmp(&b), "slice comparison agrees");
            let mut p = ka.parser();
            assert!(p.$get() == Ok(a), "decode returns the value");
            assert!(p.finish().is_ok(), "decode consumes the whole key");
            vcover!(a < b, "a < b");
            vcover!(a > b, "a > b");
            vcover!(ka.len() != kb.len(), "different encoded lengths");
            vcover!(ka.len() == 1, "single-byte encoding");
            core::mem::forget(ka);
            core::mem::forget(kb);
        });
    };
}
int_harness!(u64_order_rt, u64, u64, u64, 8, u64);
int_harness!(i64_order_rt, i64, i64, i64, 8, u64);
int_harness!(u32_order_rt, u32, u32, u32, 4, u32);
int_harness!(i32_order_rt, i32, i32, i32, 4, u32);
int_harness!(u16_order_rt, u16, u16, u16, 2, u16);
int_harness!(i16_order_rt, i16, i16, i16, 2, u16);
int_harness!(u8_order_rt, u8, u8, u8, 1, u8);
int_harness!(i8_order_rt, i8, i8, i8, 1, u8);

// ------------------------------------------------------------------ byte strings, concrete lengths

fn bytes_pair<const LA: usize, const LB: usize>(t: &[u8]) {
    let mut t = Tape::new(t);
    let a: [u8; LA] = t.arr();
    let b: [u8; LB] = t.arr();
    let ka = TupleKey::builder().bytes(&a).build();
    let kb = TupleKey::builder().bytes(&b).build();
    assert!(cmp_bytes(ka.as_bytes(), kb.as_bytes()) == cmp_bytes(&a, &b), "encoded order equals byte-string order");
    let mut p = ka.parser();
    match p.bytes() {
        Ok(v) => assert!(v.len() == LA && cmp_bytes(&v, &a) == Ordering::Equal, "decode returns the bytes"),
        Err(_) => assert!(false, "decode of an encoding fails"),
    }
    assert!(p.finish().is_ok(), "decode consumes the whole key");
    vcover!(LA == 0 || a[0] == 0, "zero byte in a");
    vcover!(LA == 0 || a[LA - 1] == 0xff, "0xff byte in a");
    vcover!(LA >= LB || LA == 0 || (a[0] == b[0]), "a shares a prefix with b");
    core::mem::forget(ka);
    core::mem::forget(kb);
}
macro_rules! bytes_h {
    ($name:ident, $la:expr, $lb:expr) => {
        harness!($name, $la + $lb + 1, |t| { bytes_pair::<$la, $lb>(t) });
    };
}
bytes_h!(bytes_0_0, 0, 0);
bytes_h!(bytes_0_1, 0, 1);
bytes_h!(bytes_1_1, 1, 1);
bytes_h!(bytes_1_2, 1, 2);
bytes_h!(bytes_2_1, 2, 1);
bytes_h!(bytes_2_2, 2, 2);
bytes_h!(bytes_2_3, 2, 3);
bytes_h!(bytes_3_3, 3, 3);
bytes_h!(bytes_1_3, 1, 3);
bytes_h!(bytes_0_3, 0, 3);

/// strings: same framing through `string`; decode checks UTF-8 (ASCII contents here).
harness!(string_2_2, 4, |t| {
    let a = [t[0] & 0x7f, t[1] & 0x7f];
    let b = [t[2] & 0x7f, t[3] & 0x7f];
    let sa = core::str::from_utf8(&a).unwrap();
    let sb = core::str::from_utf8(&b).unwrap();
    let ka = TupleKey::builder().string(sa).build();
    let kb = TupleKey::builder().string(sb).build();
    assert!(cmp_bytes(ka.as_bytes(), kb.as_bytes()) == cmp_bytes(&a, &b), "encoded order equals string order");
    let mut p = ka.parser();
    match p.string() {
        Ok(s) => assert!(s.as_bytes() == &a[..], "decode returns the string"),
        Err(_) => assert!(false, "decode of an encoding fails"),
    }
    assert!(p.finish().is_ok(), "decode consumes the whole key");
    vcover!(a[0] == 0, "NUL in string");
    core::mem::forget(ka);
    core::mem::forget(kb);
});

// ------------------------------------------------------------------ tuples: lexicographic order

/// (u64, bytes[L]) pairs: element-by-element comparison.
fn tuple_u64_bytes<const L: usize>(t: &[u8]) {
    let mut t = Tape::new(t);
    let (a0, b0) = (t.u64(), t.u64());
    let a1: [u8; L] = t.arr();
    let b1: [u8; L] = t.arr();
    let ka = TupleKey::builder().u64(a0).bytes(&a1).build();
    let kb = TupleKey::builder().u64(b0).bytes(&b1).build();
    let want = a0.cmp(&b0).then(cmp_bytes(&a1, &b1));
    assert!(cmp_bytes(ka.as_bytes(), kb.as_bytes()) == want, "tuple order is element-by-element");
    let mut p = ka.parser();
    assert!(p.u64() == Ok(a0), "first element decodes");
    assert!(p.bytes().map(|v| cmp_bytes(&v, &a1) == Ordering::Equal) == Ok(true), "second element decodes");
    assert!(p.finish().is_ok(), "decode consumes the whole key");
    vcover!(a0 == b0 && a1[0] != b1[0], "decided by the second element");
    vcover!(a0 != b0, "decided by the first element");
    core::mem::forget(ka);
    core::mem::forget(kb);
}
harness!(tuple_u64_bytes1, 18, |t| { tuple_u64_bytes::<1>(t) });
harness!(tuple_u64_bytes2, 20, |t| { tuple_u64_bytes::<2>(t) });

/// (bytes[LA|LB], i64): a shorter first element must not let the second element leak into
/// the comparison of the first.
fn tuple_bytes_i64<const LA: usize, const LB: usize>(t: &[u8]) {
    let mut t = Tape::new(t);
    let a0: [u8; LA] = t.arr();
    let b0: [u8; LB] = t.arr();
    let (a1, b1) = (t.u64() as i64, t.u64() as i64);
    let ka = TupleKey::builder().bytes(&a0).i64(a1).build();
    let kb = TupleKey::builder().bytes(&b0).i64(b1).build();
    let want = cmp_bytes(&a0, &b0).then(a1.cmp(&b1));
    assert!(cmp_bytes(ka.as_bytes(), kb.as_bytes()) == want, "tuple order is element-by-element");
    let mut p = kb.parser();
    assert!(p.bytes().map(|v| cmp_bytes(&v, &b0) == Ordering::Equal) == Ok(true), "first element decodes");
    assert!(p.i64() == Ok(b1), "second element decodes");
    assert!(p.finish().is_ok(), "decode consumes the whole key");
    vcover!(cmp_bytes(&a0, &b0) == Ordering::Equal && a1 < b1, "decided by the second element");
    core::mem::forget(ka);
    core::mem::forget(kb);
}
harness!(tuple_bytes1_2_i64, 19, |t| { tuple_bytes_i64::<1, 2>(t) });
harness!(tuple_bytes2_2_i64, 20, |t| { tuple_bytes_i64::<2, 2>(t) });
harness!(tuple_bytes0_1_i64, 17, |t| { tuple_bytes_i64::<0, 1>(t) });

/// (i64, u64) and (unit, i32)
harness!(tuple_i64_u64, 32, |t| {
    let mut t = Tape::new(t);
    let (a0, a1, b0, b1) = (t.u64() as i64, t.u64(), t.u64() as i64, t.u64());
    let ka = TupleKey::builder().i64(a0).u64(a1).build();
    let kb = TupleKey::builder().i64(b0).u64(b1).build();
    assert!(cmp_bytes(ka.as_bytes(), kb.as_bytes()) == a0.cmp(&b0).then(a1.cmp(&b1)), "tuple order is element-by-element");
    let mut p = ka.parser();
    assert!(p.i64() == Ok(a0) && p.u64() == Ok(a1) && p.finish().is_ok(), "tuple decodes");
    vcover!(a0 == b0 && a1 < b1, "decided by the second element");
    core::mem::forget(ka);
    core::mem::forget(kb);
});
harness!(tuple_unit_i32, 8, |t| {
    let mut t = Tape::new(t);
    let (a, b) = (t.u32() as i32, t.u32() as i32);
    let ka = TupleKey::builder().unit().i32(a).build();
    let kb = TupleKey::builder().unit().i32(b).build();
    assert!(cmp_bytes(ka.as_bytes(), kb.as_bytes()) == a.cmp(&b), "unit prefix does not disturb order");
    let mut p = ka.parser();
    assert!(p.unit().is_ok() && p.i32() == Ok(a) && p.finish().is_ok(), "tuple decodes");
    vcover!(a < 0 && b >= 0, "sign boundary");
    core::mem::forget(ka);
    core::mem::forget(kb);
});

// ------------------------------------------------------------------ prefix contiguity

/// s < s'  =>  enc(s) <= enc(s.e) < enc(s')   for s, s' single u64 / i64 and e an arbitrary
/// further element (u64, i64, unit or bytes[1]).
harness!(prefix_contiguity_u64, 27, |t| {
    let mut t = Tape::new(t);
    let (s, s2) = (t.u64(), t.u64());
    vassume!(s < s2);
    let ks = TupleKey::builder().u64(s).build();
    let ks2 = TupleKey::builder().u64(s2).build();
    let e_u = t.u64();
    let e_b: [u8; 1] = t.arr();
    let which = t.u8() % 4;
    let ext = match which {
        0 => TupleKey::builder().u64(s).u64(e_u).build(),
        1 => TupleKey::builder().u64(s).i64(e_u as i64).build(),
        2 => TupleKey::builder().u64(s).unit().build(),
        _ => TupleKey::builder().u64(s).bytes(&e_b).build(),
    };
    assert!(cmp_bytes(ks.as_bytes(), ext.as_bytes()) == Ordering::Less, "extension sorts after its prefix");
    assert!(cmp_bytes(ext.as_bytes(), ks2.as_bytes()) == Ordering::Less, "extension sorts before every larger prefix");
    vcover!(which == 3 && e_b[0] == 0xff, "extension by 0xff bytes");
    vcover!(s + 1 == s2, "adjacent prefixes");
    core::mem::forget(ks);
    core::mem::forget(ks2);
    core::mem::forget(ext);
});
fn prefix_contiguity_bytes<const LA: usize, const LB: usize>(t: &[u8]) {
    let mut t = Tape::new(t);
    let s: [u8; LA] = t.arr();
    let s2: [u8; LB] = t.arr();
    vassume!(cmp_bytes(&s, &s2) == Ordering::Less);
    let ks = TupleKey::builder().bytes(&s).build();
    let ks2 = TupleKey::builder().bytes(&s2).build();
    let e_u = t.u64();
    let e_b: [u8; 1] = t.arr();
    let which = t.u8() % 3;
    let ext = match which {
        0 => TupleKey::builder().bytes(&s).u64(e_u).build(),
        1 => TupleKey::builder().bytes(&s).i64(e_u as i64).build(),
        _ => TupleKey::builder().bytes(&s).bytes(&e_b).build(),
    };
    assert!(cmp_bytes(ks.as_bytes(), ext.as_bytes()) == Ordering::Less, "extension sorts after its prefix");
    assert!(cmp_bytes(ext.as_bytes(), ks2.as_bytes()) == Ordering::Less, "extension sorts before every larger prefix");
    vcover!(LA >= LB || cmp_bytes(&s, &s2[..LA]) == Ordering::Equal, "s is a proper prefix of s'");
    core::mem::forget(ks);
    core::mem::forget(ks2);
    core::mem::forget(ext);
}
harness!(prefix_contiguity_bytes_1_2, 13, |t| { prefix_contiguity_bytes::<1, 2>(t) });
harness!(prefix_contiguity_bytes_2_2, 14, |t| { prefix_contiguity_bytes::<2, 2>(t) });
harness!(prefix_contiguity_bytes_0_1, 11, |t| { prefix_contiguity_bytes::<0, 1>(t) });

// ------------------------------------------------------------------ total decoders

/// Every parser entry point on an arbitrary tape of concrete length L: Ok or Err, no panic;
/// an Ok integer re-encodes to exactly the bytes consumed (canonical form).
fn decode_total<const L: usize>(t: &[u8]) {
    let mut t = Tape::new(t);
    let raw: [u8; L] = t.arr();
    let which = t.u8() % 7;
    let mut p = TupleKeyParser::new(&raw);
    match which {
        0 => {
            if let Ok(v) = p.u64() {
                let k = TupleKey::builder().u64(v).build();
                assert!(cmp_bytes(k.as_bytes(), &raw[..p.offset()]) == Ordering::Equal, "accepted u64 is canonical");
                core::mem::forget(k);
            }
        }
        1 => {
            if let Ok(v) = p.i64() {
                let k = TupleKey::builder().i64(v).build();
                assert!(cmp_bytes(k.as_bytes(), &raw[..p.offset()]) == Ordering::Equal, "accepted i64 is canonical");
                core::mem::forget(k);
            }
        }
        2 => {
            let _ = p.u32();
        }
        3 => {
            let _ = p.i16();
        }
        4 => {
            let _ = p.unit();
        }
        5 => {
            if let Ok(v) = p.bytes() {
                let k = TupleKey::builder().bytes(&v).build();
                assert!(cmp_bytes(k.as_bytes(), &raw[..p.offset()]) == Ordering::Equal, "accepted bytes are canonical");
                core::mem::forget(k);
                core::mem::forget(v);
            }
        }
        _ => {
            let _ = p.u8();
            let _ = p.i8();
        }
    }
    assert!(p.offset() <= L, "parser never runs past the input");
    let _ = p.remaining();
    let _ = p.finish();
    vcover!(which == 0, "u64 path");
    vcover!(which == 5, "bytes path");
}
harness!(decode_total_0, 1, |t| { decode_total::<0>(t) });
harness!(decode_total_1, 2, |t| { decode_total::<1>(t) });
harness!(decode_total_2, 3, |t| { decode_total::<2>(t) });
harness!(decode_total_4, 5, |t| { decode_total::<4>(t) });
harness!(decode_total_6, 7, |t| { decode_total::<6>(t) });
/// integer decoders on a full-width (tag + 8 bytes) arbitrary input
harness!(decode_ints_9, 10, |t| {
    let mut t = Tape::new(t);
    let raw: [u8; 9] = t.arr();
    let signed = t.bool();
    let mut p = TupleKeyParser::new(&raw);
    if signed {
        if let Ok(v) = p.i64() {
            let k = TupleKey::builder().i64(v).build();
            assert!(cmp_bytes(k.as_bytes(), &raw[..p.offset()]) == Ordering::Equal, "accepted i64 is canonical");
            core::mem::forget(k);
        }
    } else if let Ok(v) = p.u64() {
        let k = TupleKey::builder().u64(v).build();
        assert!(cmp_bytes(k.as_bytes(), &raw[..p.offset()]) == Ordering::Equal, "accepted u64 is canonical");
        core::mem::forget(k);
    }
    assert!(p.offset() <= 9, "parser never runs past the input");
    vcover!(p.offset() == 9, "full-width integer consumed");
});

harness_list!(
    u64_order_rt, i64_order_rt, u32_order_rt, i32_order_rt, u16_order_rt, i16_order_rt, u8_order_rt, i8_order_rt,
    bytes_0_0, bytes_0_1, bytes_1_1, bytes_1_2, bytes_2_1, bytes_2_2, bytes_2_3, bytes_3_3, bytes_1_3, bytes_0_3,
    string_2_2, tuple_u64_bytes1, tuple_u64_bytes2, tuple_bytes1_2_i64, tuple_bytes2_2_i64, tuple_bytes0_1_i64,
    tuple_i64_u64, tuple_unit_i32,
    prefix_contiguity_u64, prefix_contiguity_bytes_1_2, prefix_contiguity_bytes_2_2, prefix_contiguity_bytes_0_1,
    decode_total_0, decode_total_1, decode_total_2, decode_total_4, decode_total_6, decode_ints_9,
);
