// In-crate harnesses for `listfree` (C17: the prepend-only list).
#![allow(dead_code, unused_imports, static_mut_refs, clippy::all)]
#[macro_use]
#[path = "/verif/hk/vk.rs"]
mod vk;
use super::*;
use vk::Tape;

type L = List<u8>;

struct Ctl {
    active: bool,
    budget: usize,
    depth: usize,
    list: *const (),
    choices: [u8; 8],
    cp: usize,
    items: [u8; 4],
    ip: usize,
    n_items: usize,
    done: [u8; 4],
    ndone: usize,
    nested_ran: usize,
}
static mut CTL: Ctl = Ctl {
    active: false, budget: 0, depth: 0, list: core::ptr::null(), choices: [0; 8], cp: 0,
    items: [0; 4], ip: 0, n_items: 0, done: [0; 4], ndone: 0, nested_ran: 0,
};
fn ctl() -> &'static mut Ctl {
    unsafe { &mut *core::ptr::addr_of_mut!(CTL) }
}

/// Hook in `List::prepend` between the store of the new node's successor and the publishing
/// CAS: another "thread" may run one whole operation here (decided by the tape).
pub(crate) fn yield_point() {
    let c = ctl();
    if !c.active || c.budget == 0 || c.depth >= 2 || c.list.is_null() {
        return;
    }
    let choice = c.choices[c.cp % 8];
    c.cp += 1;
    match choice % 3 {
        0 => {}
        1 => {
            if c.ip < c.n_items {
                c.budget -= 1;
                c.depth += 1;
                c.nested_ran += 1;
                let v = c.items[c.ip];
                c.ip += 1;
                let l = unsafe { &*(c.list as *const L) };
                l.prepend(v);
                let c = ctl();
                c.done[c.ndone] = v;
                c.ndone += 1;
                c.depth -= 1;
            }
        }
        _ => {
            c.budget -= 1;
            c.depth += 1;
            let l = unsafe { &*(c.list as *const L) };
            reader_checks(l);
            ctl().depth -= 1;
        }
    }
}

/// A full iteration yields exactly the completed prepends, newest first, each once.
fn reader_checks(l: &L) {
    let c = ctl();
    let mut it = l.iter();
    let mut i = c.ndone;
    let mut steps = 0;
    while steps < 6 {
        match it.next() {
            None => break,
            Some(v) => {
                assert!(i > 0, "reader: no element beyond the completed prepends");
                i -= 1;
                assert!(*v == c.done[i], "reader: newest first, each completed prepend once");
            }
        }
        steps += 1;
    }
    assert!(i == 0, "reader: every completed prepend appears");
}

fn activate() {
    *ctl() = Ctl {
        active: true, budget: 0, depth: 0, list: core::ptr::null(), choices: [0; 8], cp: 0,
        items: [0; 4], ip: 0, n_items: 0, done: [0; 4], ndone: 0, nested_ran: 0,
    };
}

/// N sequential prepends of symbolic values: iteration is newest-first, each exactly once;
/// two iterators taken at different times see their own snapshots' suffixes.
fn seq<const N: usize>(t: &[u8]) {
    let mut t = Tape::new(t);
    let l: L = List::default();
    assert!(l.iter().next().is_none(), "empty list iterates nothing");
    let mut vals = [0u8; N];
    let mut i = 0;
    while i < N {
        vals[i] = t.u8();
        i += 1;
    }
    let cut = t.u8() as usize;
    vassume!(cut <= N);
    let mut i = 0;
    let mut early: Option<ListIterator<'_, u8>> = None;
    while i < N {
        if i == cut {
            early = Some(ListIterator { _list: &l, node: l.head.load(Ordering::Acquire) });
        }
        l.prepend(vals[i]);
        i += 1;
    }
    // full iteration
    let mut it = l.iter();
    let mut i = N;
    while i > 0 {
        i -= 1;
        assert!(it.next() == Some(&vals[i]), "newest first, each once");
    }
    assert!(it.next().is_none(), "iteration ends after N elements");
    assert!(it.next().is_none(), "iteration stays ended");
    drop(it);
    // an iterator taken after `cut` prepends shows exactly those, whatever was prepended later
    if let Some(mut e) = early {
        let mut i = cut;
        while i > 0 {
            i -= 1;
            assert!(e.next() == Some(&vals[i]), "earlier iterator is a stable snapshot");
        }
        assert!(e.next().is_none(), "earlier iterator ends at its snapshot");
    }
    vcover!(N < 2 || (cut > 0 && cut < N), "iterator taken between prepends");
    drop(l); // Drop frees every node exactly once (pointer checks)
}
harness!(seq1, 2, |t| { seq::<1>(t) });
harness!(seq3, 4, |t| { seq::<3>(t) });
harness!(seq4, 5, |t| { seq::<4>(t) });

/// One prepend whose yield point may host complete further operations (prepends or readers),
/// nested to depth 2: reaches the CAS-failure retry that no sequential run reaches.
fn nested<const M: usize>(t: &[u8], budget: usize) {
    let mut t = Tape::new(t);
    activate();
    let l: L = List::default();
    {
        let c = ctl();
        let mut i = 0;
        while i < M {
            c.items[i] = t.u8();
            i += 1;
        }
        let mut i = 0;
        while i < 8 {
            c.choices[i] = t.u8();
            i += 1;
        }
        c.n_items = M;
        c.ip = 1;
        c.budget = budget;
        c.list = &l as *const L as *const ();
    }
    let first = ctl().items[0];
    l.prepend(first);
    {
        let c = ctl();
        c.done[c.ndone] = first;
        c.ndone += 1;
        c.budget = 0;
    }
    loop {
        let c = ctl();
        if c.ip >= M {
            break;
        }
        let v = c.items[c.ip];
        c.ip += 1;
        l.prepend(v);
        let c = ctl();
        c.done[c.ndone] = v;
        c.ndone += 1;
    }
    assert!(ctl().ndone == M, "every prepend completed");
    reader_checks(&l);
    vcover!(ctl().nested_ran >= 1, "a nested prepend ran inside the outer prepend (CAS retry)");
    vcover!(M < 3 || ctl().nested_ran >= 2, "two nested prepends");
    ctl().active = false;
    drop(l);
}
harness!(nested2, 10, |t| { nested::<2>(t, 1) });
harness!(nested3, 11, |t| { nested::<3>(t, 2) });
harness!(nested4, 12, |t| { nested::<4>(t, 3) });

harness_list!(seq1, seq3, seq4, nested2, nested3, nested4);
