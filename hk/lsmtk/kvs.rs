// In-crate harness for `lsmtk::kvs::memtable` (C07): a range-scan cursor over the memtable is a
// stable, memory-safe snapshot while later writes arrive and while the store releases the
// memtable.  Events are sequentialised: they are ordinary calls placed between cursor calls.
#![allow(dead_code, unused_imports, clippy::all)]
#[macro_use]
#[path = "/verif/hk/vk.rs"]
mod vk;
#[path = "/verif/hk/serr.rs"]
mod serr;
use super::memtable::MemTable;
use super::*;
use sst::Cursor;
use std::ops::Bound;
use vk::Tape;

type Obs = Option<(u8, u64, Option<u8>)>;
fn obs_of<C: Cursor>(c: &C) -> Obs {
    match c.key() {
        None => None,
        Some(k) => Some((k.key[0], k.timestamp, c.value().map(|v| v[0]))),
    }
}

/// script codes: 0 seek_to_first, 1 seek_to_last, 2 seek(symbolic key), 3 next, 4 prev,
/// 5 a later write (symbolic key, timestamp above the scan's), 6 the store drops its last
/// reference to the memtable.
fn snapshot<const K: usize>(t: &[u8], script: [u8; K]) {
    let mut t = Tape::new(t);
    skipfree::verif_harness::script_heights(&[1, 1, 1, 1, 1, 1, 1, 1]);
    let mt = Arc::new(MemTable::default());
    // contents at scan-open time: two entries (distinct (key, timestamp)), one may be a tombstone
    let k0 = t.u8() & 3;
    let k1 = t.u8() & 3;
    let tomb1 = t.bool();
    let (v0, v1) = (t.u8(), t.u8());
    {
        let mut wb = WriteBatch::default();
        wb._put(&[k0], 1, &[v0]);
        if tomb1 {
            wb._del(&[k1], 2);
        } else {
            wb._put(&[k1], 2, &[v1]);
        }
        assert!(mt.write(&mut wb).is_ok(), "memtable write returns Ok");
    }
    let read_ts = 2u64;
    // what the scan must show for as long as it is held: per key the newest version <= read_ts,
    // unless a tombstone; ascending keys
    let mut want: [(u8, u64, u8); 2] = [(0, 0, 0); 2];
    let mut n = 0usize;
    if k0 == k1 {
        if !tomb1 {
            want[0] = (k1, 2, v1);
            n = 1;
        }
    } else {
        let a = (k0, 1u64, v0);
        if tomb1 {
            want[0] = a;
            n = 1;
        } else {
            let b = (k1, 2u64, v1);
            if k0 < k1 {
                want = [a, b];
            } else {
                want = [b, a];
            }
            n = 2;
        }
    }
    let cur = mt.range_scan(&Bound::<Vec<u8>>::Unbounded, &Bound::Unbounded, read_ts);
    assert!(cur.is_ok(), "range_scan returns Ok");
    let mut cur = Box::new(cur.unwrap());
    let mut mt = Some(mt);
    let mut pos: isize = -1; // reference position: -1 before first, n after last
    let mut step = 0;
    let mut wrote_same_key = false;
    while step < K {
        let op = script[step];
        let arg = t.u8() & 3;
        match op {
            0 => {
                assert!(cur.seek_to_first().is_ok(), "seek_to_first Ok");
                pos = -1;
            }
            1 => {
                assert!(cur.seek_to_last().is_ok(), "seek_to_last Ok");
                pos = n as isize;
            }
            2 => {
                assert!(cur.seek(&[arg]).is_ok(), "seek Ok");
                let mut i = 0;
                while i < n && want[i].0 < arg {
                    i += 1;
                }
                pos = i as isize;
            }
            3 => {
                assert!(cur.next().is_ok(), "next Ok");
                if pos < n as isize {
                    pos += 1;
                }
            }
            4 => {
                assert!(cur.prev().is_ok(), "prev Ok");
                if pos >= 0 {
                    pos -= 1;
                }
            }
            5 => {
                // a write that completes after the scan was opened: higher timestamp
                if let Some(m) = mt.as_ref() {
                    let mut wb = WriteBatch::default();
                    if t.bool() {
                        wb._put(&[arg], 3, &[0xee]);
                    } else {
                        wb._del(&[arg], 3);
                    }
                    wrote_same_key |= arg == k0 || arg == k1;
                    assert!(m.write(&mut wb).is_ok(), "later write Ok");
                }
            }
            _ => {
                // flush finished: the store releases the memtable the cursor reads
                drop(mt.take());
            }
        }
        if op <= 4 {
            let got = obs_of(&*cur);
            let exp: Obs = if pos >= 0 && (pos as usize) < n {
                let w = want[pos as usize];
                Some((w.0, w.1, Some(w.2)))
            } else {
                None
            };
            assert!(got == exp, "the scan shows exactly the contents at the time it was opened");
        }
        step += 1;
    }
    vcover!(wrote_same_key, "a later write to a key the scan shows");
    vcover!(n == 2, "two visible keys");
    vcover!(n == 0, "nothing visible");
    skipfree::verif_harness::unscript_heights();
    drop(cur); // the cursor is the last owner of the skiplist nodes
    drop(mt);
}
harness_e!(snapshot_first_next_write_next_next, 20, |t| { snapshot::<5>(t, [0, 3, 5, 3, 3]) });
harness_e!(snapshot_first_next_drop_next_prev, 20, |t| { snapshot::<5>(t, [0, 3, 6, 3, 4]) });
harness_e!(snapshot_write_drop_seek_next, 20, |t| { snapshot::<4>(t, [5, 6, 2, 3]) });
harness_e!(snapshot_last_prev_write_drop_prev, 20, |t| { snapshot::<5>(t, [1, 4, 5, 6, 4]) });
harness_e!(snapshot_seek_write_next_drop_next, 20, |t| { snapshot::<5>(t, [2, 5, 3, 6, 3]) });
harness_e!(snapshot_drop_first_next, 20, |t| { snapshot::<3>(t, [6, 0, 3]) });

/// Minimal shapes (the larger scripts above run out of memory): one entry, the raw memtable
/// cursor, and the release of the memtable between two cursor calls.
harness_e!(min_cursor_after_release, 4, |t| {
    let mut t = Tape::new(t);
    skipfree::verif_harness::script_heights(&[1, 1, 1, 1, 1, 1, 1, 1]);
    let mt = Arc::new(MemTable::default());
    let (k, v) = (t.u8(), t.u8());
    {
        let mut wb = WriteBatch::default();
        wb._put(&[k], 1, &[v]);
        assert!(mt.write(&mut wb).is_ok(), "memtable write returns Ok");
    }
    let mut cur = Box::new(mt.cursor());
    cur.seek(&[0]).unwrap(); // the raw skiplist cursor: positioned on the first entry >= key
    vassume!(obs_of(&*cur).is_some());
    drop(mt); // the store releases the memtable (flush finished)
    assert!(obs_of(&*cur) == Some((k, 1, Some(v))), "the cursor still shows the entry after the memtable is released");
    cur.next().unwrap();
    assert!(obs_of(&*cur).is_none(), "and then ends");
    cur.prev().unwrap();
    assert!(obs_of(&*cur) == Some((k, 1, Some(v))), "and steps back onto the entry");
    skipfree::verif_harness::unscript_heights();
    drop(cur);
});
/// The smallest memtable-level shape: write, cursor, release, read key and value.
harness_e!(min_key_after_release, 4, |t| {
    let mut t = Tape::new(t);
    skipfree::verif_harness::script_heights(&[1, 1, 1, 1, 1, 1, 1, 1]);
    let mt = Arc::new(MemTable::default());
    let (k, v) = (t.u8(), t.u8());
    {
        let mut wb = WriteBatch::default();
        wb._put(&[k], 1, &[v]);
        assert!(mt.write(&mut wb).is_ok(), "memtable write returns Ok");
    }
    let mut cur = mt.cursor();
    cur.seek_to_first().unwrap(); // the raw skiplist cursor: on the first entry
    drop(mt); // the store releases the memtable (flush finished)
    match cur.key() {
        Some(kr) => assert!(kr.key.len() == 1 && kr.key[0] == k && kr.timestamp == 1, "the cursor still shows the key after the memtable is released"),
        None => assert!(false, "the cursor lost its position when the memtable was released"),
    }
    assert!(cur.value().map(|x| x.len() == 1 && x[0] == v) == Some(true), "and the value");
    skipfree::verif_harness::unscript_heights();
    drop(cur);
});

/// One entry, a range scan at the entry's timestamp, then a later write to the same or another
/// key: the scan never shows the later write.
harness_e!(min_scan_later_write, 6, |t| {
    let mut t = Tape::new(t);
    skipfree::verif_harness::script_heights(&[1, 1, 1, 1, 1, 1, 1, 1]);
    let mt = Arc::new(MemTable::default());
    let (k, v, k2) = (t.u8() & 1, t.u8(), t.u8() & 1);
    {
        let mut wb = WriteBatch::default();
        wb._put(&[k], 1, &[v]);
        assert!(mt.write(&mut wb).is_ok(), "memtable write returns Ok");
    }
    let cur = mt.range_scan(&Bound::<Vec<u8>>::Unbounded, &Bound::Unbounded, 1);
    assert!(cur.is_ok(), "range_scan returns Ok");
    let mut cur = Box::new(cur.unwrap());
    {
        let mut wb = WriteBatch::default();
        wb._put(&[k2], 2, &[0xee]);
        assert!(mt.write(&mut wb).is_ok(), "later write Ok");
    }
    cur.seek_to_first().unwrap();
    cur.next().unwrap();
    assert!(obs_of(&*cur) == Some((k, 1, Some(v))), "the scan shows the contents at open time, not the later write");
    cur.next().unwrap();
    assert!(obs_of(&*cur).is_none(), "and nothing else");
    vcover!(k2 == k, "later write to the same key");
    vcover!(k2 < k, "later write to a smaller key");
    skipfree::verif_harness::unscript_heights();
    drop(cur);
    drop(mt);
});

harness_list!(
    min_key_after_release, min_cursor_after_release, min_scan_later_write,
    snapshot_first_next_write_next_next, snapshot_first_next_drop_next_prev, snapshot_write_drop_seek_next,
    snapshot_last_prev_write_drop_prev, snapshot_seek_write_next_drop_next, snapshot_drop_first_next,
);
