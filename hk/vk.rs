// Shared harness support, included by every harness module with
//   #[macro_use] #[path = "/verif/hk/vk.rs"] mod vk;
// A harness is one function `body(&[u8; N])` over a *tape*: under Kani the tape
// is `kani::any()` (every value of the N bytes at once, decided by the solver),
// natively it is the concrete counterexample being replayed.  The same body is
// compiled in both worlds, so a replay exercises exactly what the solver saw.
#![allow(unused_macros, dead_code, unused_imports)]

/// Assumption: constrains the solver under Kani, leaves the body natively.
macro_rules! vassume {
    ($c:expr) => {
        #[cfg(kani)]
        kani::assume($c);
        #[cfg(not(kani))]
        if !($c) {
            println!("REPLAY-ASSUME-FAILED");
            return;
        }
    };
}

/// Cover point: must be SATISFIED in the solver run (vacuity witness); natively
/// it records the label so cover-witness tapes can be checked.
macro_rules! vcover {
    ($c:expr, $m:literal) => {
        #[cfg(kani)]
        kani::cover!($c, $m);
        #[cfg(not(kani))]
        if $c {
            println!("REPLAY-COVER {}", $m);
        }
    };
}

/// Define a harness `name` over a tape of `n` bytes.
/// Kani entry point: `<module path>::name::check`.
macro_rules! harness {
    ($(#[$m:meta])* $name:ident, $n:expr, |$t:ident| $body:block) => {
        pub mod $name {
            #[allow(unused_imports)]
            use super::*;
            pub const N: usize = $n;
            #[allow(unused_variables)]
            pub fn body($t: &[u8; $n]) $body
            #[cfg(kani)]
            #[kani::proof]
            $(#[$m])*
            pub fn check() {
                let t: [u8; $n] = kani::any();
                body(&t);
                kani::cover!(true, "END");
            }
        }
    };
}

/// Registry + native replay entry (`cargo test verif_replay` with
/// VERIF_HARNESS=<name> VERIF_TAPE=<hex>).
macro_rules! harness_list {
    ($($name:ident),* $(,)?) => {
        pub fn verif_dispatch(name: &str, tape: &[u8]) -> bool {
            match name {
                $( stringify!($name) => {
                    let mut a = [0u8; $name::N];
                    let k = core::cmp::min(tape.len(), $name::N);
                    a[..k].copy_from_slice(&tape[..k]);
                    $name::body(&a);
                    true
                } )*
                _ => false,
            }
        }
        #[cfg(all(test, not(kani)))]
        #[test]
        fn verif_replay() {
            let name = match std::env::var("VERIF_HARNESS") { Ok(n) => n, Err(_) => return };
            let hex = std::env::var("VERIF_TAPE").unwrap_or_default();
            let tape: Vec<u8> = (0..hex.len() / 2)
                .map(|i| u8::from_str_radix(&hex[2 * i..2 * i + 2], 16).unwrap())
                .collect();
            println!("REPLAY-BEGIN {}", name);
            if !verif_dispatch(&name, &tape) {
                println!("REPLAY-UNKNOWN-HARNESS {}", name);
                return;
            }
            println!("REPLAY-RETURNED {}", name);
        }
    };
}

/// Tape reader: ordinary code, identical under Kani and natively.
pub struct Tape<'a> {
    pub b: &'a [u8],
    pub i: usize,
}
impl<'a> Tape<'a> {
    pub fn new(b: &'a [u8]) -> Self {
        Tape { b, i: 0 }
    }
    #[inline]
    pub fn u8(&mut self) -> u8 {
        let v = self.b[self.i];
        self.i += 1;
        v
    }
    pub fn bool(&mut self) -> bool {
        self.u8() & 1 == 1
    }
    pub fn u16(&mut self) -> u16 {
        let a = [self.u8(), self.u8()];
        u16::from_le_bytes(a)
    }
    pub fn u32(&mut self) -> u32 {
        let a = [self.u8(), self.u8(), self.u8(), self.u8()];
        u32::from_le_bytes(a)
    }
    pub fn u64(&mut self) -> u64 {
        let a = [
            self.u8(), self.u8(), self.u8(), self.u8(),
            self.u8(), self.u8(), self.u8(), self.u8(),
        ];
        u64::from_le_bytes(a)
    }
    pub fn arr<const K: usize>(&mut self) -> [u8; K] {
        let mut a = [0u8; K];
        let mut j = 0;
        while j < K {
            a[j] = self.u8();
            j += 1;
        }
        a
    }
}
