// Shared harness support, included by every harness module with
//   #[macro_use] #[path = "/verif/hk/vk.rs"] mod vk;
// A harness is one function `body(&[u8; N])` over a *tape*: under Kani the tape
// is `kani::any()` (every value of the N bytes at once, decided by the solver),
// natively it is the concrete counterexample being replayed.  The same body is
// compiled in both worlds, so a replay exercises exactly what the solver saw.
#![allow(unused_macros, dead_code, unused_imports)]

/// Assumption: constrains the solver under Kani, leaves the body natively.
macro_rules! vassume {
    ($c:expr) => {
        #[cfg(kani)]
        kani::assume($c);
        #[cfg(not(kani))]
        if !($c) {
            if vk::VK_TRACE.load(core::sync::atomic::Ordering::Relaxed) {
                println!("REPLAY-ASSUME-FAILED");
            }
            return;
        }
    };
}

/// Cover point: must be SATISFIED in the solver run (vacuity witness); natively
/// it records the label so cover-witness tapes can be checked.
macro_rules! vcover {
    ($c:expr, $m:literal) => {
        #[cfg(kani)]
        kani::cover!($c, $m);
        #[cfg(not(kani))]
        if vk::VK_TRACE.load(core::sync::atomic::Ordering::Relaxed) && $c {
            println!("REPLAY-COVER {}", $m);
        }
    };
}

/// Define a harness `name` over a tape of `n` bytes.
/// Kani entry point: `<module path>::name::check`.
macro_rules! harness {
    ($(#[$m:meta])* $name:ident, $n:expr, |$t:ident| $body:block) => {
        pub mod $name {
            #[allow(unused_imports)]
            use super::*;
            pub const N: usize = $n;
            #[allow(unused_variables)]
            pub fn body($t: &[u8; $n]) $body
            #[cfg(kani)]
            #[kani::proof]
            $(#[$m])*
            pub fn check() {
                let t: [u8; $n] = kani::any();
                body(&t);
                kani::cover!(true, "END");
            }
        }
    };
}


/// `harness!` with the error-text stubs attached (needs `mod serr` from /verif/hk/serr.rs in scope).
macro_rules! harness_e {
    ($name:ident, $n:expr, |$t:ident| $body:block) => {
        harness!(
            #[kani::stub(alloc::fmt::format, serr::format)]
            #[kani::stub(handled::SError::new, serr::serr_new)]
            #[kani::stub(handled::SError::with_code, serr::serr_with_str)]
            #[kani::stub(handled::SError::with_message, serr::serr_with_str)]
            #[kani::stub(handled::SError::with_atom_field, serr::serr_with_atom)]
            #[kani::stub(handled::SError::with_string_field, serr::serr_with_string)]
            #[kani::stub(handled::SError::with_debug_field, serr::serr_with_debug)]
            $name, $n, |$t| $body);
    };
}

/// Registry + native replay entry (`cargo test verif_replay` with
/// VERIF_HARNESS=<name> VERIF_TAPE=<hex>).
macro_rules! harness_list {
    ($($name:ident),* $(,)?) => {
        pub fn verif_dispatch(name: &str, tape: &[u8]) -> bool {
            match name {
                $( stringify!($name) => {
                    let mut a = [0u8; $name::N];
                    let k = core::cmp::min(tape.len(), $name::N);
                    a[..k].copy_from_slice(&tape[..k]);
                    $name::body(&a);
                    true
                } )*
                _ => false,
            }
        }
        /// Development aid (not evidence): random tapes through every harness body natively, to
        /// find harness/model mistakes before spending solver time.  VERIF_FUZZ=<n> [VERIF_FUZZ_ONLY=<name>]
        #[cfg(all(test, not(kani)))]
        #[test]
        fn verif_fuzz() {
            let n: u64 = match std::env::var("VERIF_FUZZ") { Ok(n) => n.parse().unwrap(), Err(_) => return };
            let only = std::env::var("VERIF_FUZZ_ONLY").ok();
            let names: &[(&str, usize)] = &[ $( (stringify!($name), $name::N) ),* ];
            let mut x: u64 = 0x9e3779b97f4a7c15;
            std::panic::set_hook(Box::new(|_| {}));
            for (name, len) in names {
                if let Some(o) = &only { if o != name { continue; } }
                let mut fails = 0;
                for _ in 0..n {
                    let mut tape = vec![0u8; *len];
                    for b in tape.iter_mut() {
                        x ^= x << 13; x ^= x >> 7; x ^= x << 17;
                        // bias towards small values so domains of size 4-5 are hit evenly
                        *b = if x & 0x100 == 0 { (x >> 16) as u8 } else { ((x >> 16) % 6) as u8 };
                    }
                    let nm = name.to_string();
                    let tp = tape.clone();
                    let r = std::panic::catch_unwind(move || { verif_dispatch(&nm, &tp); });
                    if let Err(e) = r {
                        fails += 1;
                        if fails <= 3 {
                            let msg = e.downcast_ref::<String>().cloned().or_else(|| e.downcast_ref::<&str>().map(|s| s.to_string())).unwrap_or_default();
                            let hex: String = tape.iter().map(|b| format!("{:02x}", b)).collect();
                            eprintln!("FUZZ-FAIL {} tape={} msg={}", name, hex, msg);
                        }
                    }
                }
                eprintln!("FUZZ {} runs={} fails={}", name, n, fails);
            }
        }
        #[cfg(all(test, not(kani)))]
        #[test]
        fn verif_replay() {
            // The runner passes (harness, tape) through a file: cargo-miri bakes the environment
            // of the BUILD into the test binary, so environment variables go stale under Miri.
            let from_file = std::fs::read_to_string(concat!("/verif/build/replay_", env!("CARGO_PKG_NAME"), ".in")).ok();
            let (name, hex) = match from_file {
                Some(s) => {
                    let mut it = s.lines();
                    (it.next().unwrap_or("").to_string(), it.next().unwrap_or("").to_string())
                }
                None => match std::env::var("VERIF_HARNESS") {
                    Ok(n) => (n, std::env::var("VERIF_TAPE").unwrap_or_default()),
                    Err(_) => return,
                },
            };
            let tape: Vec<u8> = (0..hex.len() / 2)
                .map(|i| u8::from_str_radix(&hex[2 * i..2 * i + 2], 16).unwrap())
                .collect();
            vk::VK_TRACE.store(true, core::sync::atomic::Ordering::Relaxed);
            println!("REPLAY-BEGIN {}", name);
            if !verif_dispatch(&name, &tape) {
                println!("REPLAY-UNKNOWN-HARNESS {}", name);
                return;
            }
            println!("REPLAY-RETURNED {}", name);
        }
    };
}

/// Native only: replay prints cover hits / failed assumptions, the fuzz self-test does not.
#[cfg(not(kani))]
pub static VK_TRACE: core::sync::atomic::AtomicBool = core::sync::atomic::AtomicBool::new(false);

/// Tape reader: ordinary code, identical under Kani and natively.
pub struct Tape<'a> {
    pub b: &'a [u8],
    pub i: usize,
}
impl<'a> Tape<'a> {
    pub fn new(b: &'a [u8]) -> Self {
        Tape { b, i: 0 }
    }
    #[inline]
    pub fn u8(&mut self) -> u8 {
        let v = self.b[self.i];
        self.i += 1;
        v
    }
    pub fn bool(&mut self) -> bool {
        self.u8() & 1 == 1
    }
    pub fn u16(&mut self) -> u16 {
        let a = [self.u8(), self.u8()];
        u16::from_le_bytes(a)
    }
    pub fn u32(&mut self) -> u32 {
        let a = [self.u8(), self.u8(), self.u8(), self.u8()];
        u32::from_le_bytes(a)
    }
    pub fn u64(&mut self) -> u64 {
        let a = [
            self.u8(), self.u8(), self.u8(), self.u8(),
            self.u8(), self.u8(), self.u8(), self.u8(),
        ];
        u64::from_le_bytes(a)
    }
    pub fn arr<const K: usize>(&mut self) -> [u8; K] {
        let mut a = [0u8; K];
        let mut j = 0;
        while j < K {
            a[j] = self.u8();
            j += 1;
        }
        a
    }
}
