// In-crate harnesses for `sync42::wait_list` (C18).  `WaitList::new()` allocates MAX_CONCURRENCY
// (65536) condition variables; the slot count is only ever used modulo `waiters.len()`, so the
// harness builds the real struct with a small slot vector.
#![allow(dead_code, unused_imports, clippy::all)]
#[macro_use]
#[path = "/verif/hk/vk.rs"]
mod vk;
use super::*;

use vk::Tape;

pub(crate) fn small_wait_list<T: Clone>(slots: usize) -> WaitList<T> {
    let mut waiters: Vec<Waiter<T>> = Vec::new();
    let mut i = 0;
    while i < slots {
        waiters.push(Waiter::new());
        i += 1;
    }
    WaitList {
        state: Mutex::new(WaitListState { head: 0, tail: 0, waiting_for_available: 0 }),
        waiters,
        wait_waiter_available: Condvar::new(),
    }
}

#[cfg(kani)]
fn noop_notify(_: &Condvar) {}

/// Every sequence of OPS operations from {link, unlink(i), notify_head, is_head(i), iterate from
/// guard i} on a wait list of SLOTS slots with at most G guards alive (G <= SLOTS, so `link`
/// never blocks): exactly one linked guard is head, it is the lowest-index linked one; when it
/// unlinks, the next linked guard becomes head; head <= tail <= head + SLOTS; iteration from i
/// yields i..tail; the list's own invariant assertion never fires.
fn protocol<const SLOTS: usize, const G: usize, const OPS: usize>(t: &[u8], script: Option<[u8; OPS]>) {
    let mut t = Tape::new(t);
    let wl: WaitList<u8> = small_wait_list(SLOTS);
    let mut guards: [Option<WaitGuard<'_, u8>>; G] = [const { None }; G];
    let mut model_idx: [u64; G] = [u64::MAX; G]; // index each live guard was given
    let mut next_index: u64 = 0;
    let mut unlinked_out_of_order = false;
    let mut saw_full = false;
    let mut op_n = 0;
    while op_n < OPS {
        let op = match script {
            Some(sc) => sc[op_n],
            None => t.u8() % 4,
        };
        let which = (t.u8() as usize) % G;
        match op {
            0 => {
                // link into the first free guard slot -- unless the list is full, where the real
                // `link` would (correctly) block until the head unlinks: a single-threaded
                // harness cannot take that path
                let full = {
                    let st = wl.state.lock().unwrap();
                    st.head + SLOTS as u64 <= st.tail
                };
                if full {
                    saw_full = true;
                }
                let mut j = 0;
                let mut placed = full;
                while j < G {
                    if !placed && guards[j].is_none() {
                        let val = t.u8();
                        let mut g = wl.link(val);
                        assert!(g.index() == next_index, "link hands out consecutive indices");
                        assert!(g.load() == val, "guard holds the linked value");
                        model_idx[j] = next_index;
                        next_index += 1;
                        guards[j] = Some(g);
                        placed = true;
                    }
                    j += 1;
                }
            }
            1 => {
                if let Some(g) = guards[which].take() {
                    // is some older guard still linked?
                    let mut j = 0;
                    while j < G {
                        if guards[j].is_some() && model_idx[j] < model_idx[which] {
                            unlinked_out_of_order = true;
                        }
                        j += 1;
                    }
                    wl.unlink(g);
                    model_idx[which] = u64::MAX;
                }
            }
            2 => wl.notify_head(),
            _ => {
                // iterate from guard `which`: yields which..tail in order
                if let Some(g) = guards[which].as_ref() {
                    let mut want = model_idx[which];
                    let mut steps = 0;
                    let mut it = g.iter();
                    while steps <= SLOTS {
                        match it.next() {
                            None => break,
                            Some(mut w) => {
                                assert!(w.index() == want, "iteration yields consecutive indices from the guard");
                                want += 1;
                            }
                        }
                        steps += 1;
                    }
                    assert!(want == next_index, "iteration runs exactly to the tail");
                }
            }
        }
        // invariants after every operation
        let mut lowest = u64::MAX;
        let mut j = 0;
        while j < G {
            if guards[j].is_some() && model_idx[j] < lowest {
                lowest = model_idx[j];
            }
            j += 1;
        }
        let mut heads = 0;
        let mut j = 0;
        while j < G {
            if let Some(g) = guards[j].as_mut() {
                let h = g.is_head();
                if h {
                    heads += 1;
                }
                assert!(h == (model_idx[j] == lowest), "the head is exactly the lowest-index linked guard");
            }
            j += 1;
        }
        assert!(lowest == u64::MAX || heads == 1, "exactly one head among linked guards");
        {
            let st = wl.state.lock().unwrap();
            assert!(st.head <= st.tail && st.tail <= st.head + SLOTS as u64, "head <= tail <= head + slots");
            assert!(st.tail == next_index, "tail counts the links");
            if lowest != u64::MAX {
                assert!(st.head == lowest, "head position is the lowest linked index");
            } else {
                assert!(st.head == st.tail, "empty list: head == tail");
            }
        }
        op_n += 1;
    }
    vcover!(G < 2 || OPS < 4 || unlinked_out_of_order, "a guard unlinked while an older one is still linked");
    vcover!(script.is_some() || OPS < 2 * SLOTS || next_index as usize > SLOTS, "indices wrapped around the slot vector");
    vcover!(script.is_some() || OPS < SLOTS + 2 || saw_full, "list full while fewer than SLOTS guards are linked (older guard blocks reuse)");
    vcover!(script.is_none() || OPS < 6 || SLOTS != 2 || next_index as usize > SLOTS || saw_full, "2 slots: wrapped or full");
    // leave by unlinking everything (the guards' Drop does it)
    let mut j = 0;
    while j < G {
        drop(guards[j].take());
        j += 1;
    }
    let st = wl.state.lock().unwrap();
    assert!(st.head == st.tail, "all unlinked: head == tail");
    drop(st);
    drop(guards);
    core::mem::forget(wl);
}

// ------------------------------------------------------------------ a full list blocks `link`

/// Under Kani `Condvar::wait` stands for "this thread blocks": the path ends there (and a cover
/// point witnesses that it is reached).  So a `link` on a list whose SLOTS slots are all
/// occupied must never return; if it does, it has wrapped onto a slot that is still linked.
#[cfg(kani)]
fn wait_blocks<'a, T>(_: &Condvar, g: MutexGuard<'a, T>) -> std::sync::LockResult<MutexGuard<'a, T>> {
    kani::cover!(true, "link on a full list reaches the wait");
    kani::assume(false);
    Ok(g)
}

fn full_blocks<const SLOTS: usize>(t: &[u8]) {
    let mut t = Tape::new(t);
    let wl: std::sync::Arc<WaitList<u8>> = std::sync::Arc::new(small_wait_list(SLOTS));
    let unlink_some = t.bool();
    let which = (t.u8() as usize) % SLOTS;
    let mut guards: [Option<WaitGuard<'_, u8>>; SLOTS] = [const { None }; SLOTS];
    let mut i = 0;
    while i < SLOTS {
        guards[i] = Some(wl.link(i as u8));
        i += 1;
    }
    // optionally free a slot that is NOT the head: the list stays full (the head still blocks reuse)
    if unlink_some && which != 0 {
        if let Some(g) = guards[which].take() {
            wl.unlink(g);
        }
    }
    {
        let st = wl.state.lock().unwrap();
        assert!(st.head == 0 && st.tail == SLOTS as u64, "all slots handed out, head still linked");
    }
    #[cfg(kani)]
    {
        let g = wl.link(0xee);
        core::mem::forget(g);
        assert!(false, "link on a full list returned instead of blocking");
    }
    #[cfg(not(kani))]
    {
        let (tx, rx) = std::sync::mpsc::channel();
        let w2 = std::sync::Arc::clone(&wl);
        std::thread::spawn(move || {
            let g = w2.link(0xee);
            let _ = tx.send(());
            core::mem::forget(g);
        });
        let returned = rx.recv_timeout(std::time::Duration::from_millis(150)).is_ok();
        assert!(!returned, "link on a full list returned instead of blocking");
    }
    let mut i = 0;
    while i < SLOTS {
        core::mem::forget(guards[i].take());
        i += 1;
    }
}
harness!(
    #[kani::stub(std::sync::Condvar::notify_one, noop_notify)]
    #[kani::stub(std::sync::Condvar::wait, wait_blocks)]
    full_blocks_s2, 2, |t| { full_blocks::<2>(t) });
harness!(
    #[kani::stub(std::sync::Condvar::notify_one, noop_notify)]
    #[kani::stub(std::sync::Condvar::wait, wait_blocks)]
    full_blocks_s3, 2, |t| { full_blocks::<3>(t) });

// scripts: 0 link, 1 unlink(which), 2 notify_head, 3 iterate from guard `which`
macro_rules! proto {
    ($name:ident, $s:expr, $g:expr, $o:expr, $script:expr) => {
        harness!(#[kani::stub(std::sync::Condvar::notify_one, noop_notify)] $name, 3 * $o, |t| { protocol::<$s, $g, $o>(t, $script) });
    };
}
proto!(proto_s3_lllUUU, 3, 3, 6, Some([0, 0, 0, 1, 1, 1]));
proto!(proto_s2_llUlUU, 2, 2, 6, Some([0, 0, 1, 0, 1, 1]));
proto!(proto_s2_llUlIU, 2, 2, 6, Some([0, 0, 1, 0, 3, 1]));
proto!(proto_s3_llIUnl, 3, 3, 6, Some([0, 0, 3, 1, 2, 0]));
proto!(proto_s2_lUlUlU, 2, 2, 6, Some([0, 1, 0, 1, 0, 1]));
proto!(proto_s4_lllUlUl, 4, 3, 7, Some([0, 0, 0, 1, 0, 1, 0]));

harness_list!(full_blocks_s2, full_blocks_s3, proto_s3_lllUUU, proto_s2_llUlUU, proto_s2_llUlIU, proto_s3_llIUnl, proto_s2_lUlUlU, proto_s4_lllUlUl);
