// In-crate harness for `sync42::work_coalescing_queue` (C18): the single-caller path of
// `do_work` with cores that accept, limit or refuse batching.  Cross-caller batching needs
// threads and is outside the claim.
#![allow(dead_code, unused_imports, clippy::all)]
#[macro_use]
#[path = "/verif/hk/vk.rs"]
mod vk;
use super::*;
use vk::Tape;

/// A core that records what it sees.  `limit`: 0 refuses all batching, n accepts up to n items.
struct RecCore {
    limit: usize,
    seen: [u8; 8],
    nseen: usize,
    works: usize,
    last_taken: usize,
}
struct OutIter {
    items: [u8; 4],
    n: usize,
    i: usize,
}
impl Iterator for OutIter {
    type Item = u16;
    fn next(&mut self) -> Option<u16> {
        if self.i < self.n {
            let v = self.items[self.i];
            self.i += 1;
            Some(0x100 | v as u16) // the output for input v
        } else {
            None
        }
    }
}
#[derive(Default)]
struct Acc {
    items: [u8; 4],
    n: usize,
}
impl WorkCoalescingCore<u8, u16> for RecCore {
    type InputAccumulator = Acc;
    type OutputIterator<'a> = OutIter;
    fn can_batch(&self, acc: &Acc, _: &u8) -> bool {
        acc.n < self.limit
    }
    fn batch(&mut self, mut acc: Acc, other: u8) -> Acc {
        acc.items[acc.n] = other;
        acc.n += 1;
        self.seen[self.nseen] = other;
        self.nseen += 1;
        acc
    }
    fn work(&mut self, taken: usize, acc: Acc) -> OutIter {
        self.works += 1;
        self.last_taken = taken;
        assert!(taken == acc.n, "core is told how many inputs it batched");
        OutIter { items: acc.items, n: acc.n, i: 0 }
    }
}

#[cfg(kani)]
fn noop_notify(_: &std::sync::Condvar) {}

fn sequential<const N: usize>(t: &[u8]) {
    let mut t = Tape::new(t);
    let limit = (t.u8() % 3) as usize;
    let q: WorkCoalescingQueue<u8, u16, RecCore> = WorkCoalescingQueue {
        wait_list: crate::wait_list::verif_harness::small_wait_list(2),
        state: Mutex::default(),
        core: Mutex::new(RecCore { limit, seen: [0; 8], nseen: 0, works: 0, last_taken: 0 }),
        _phantom_i: std::marker::PhantomData,
        _phantom_o: std::marker::PhantomData,
        _phantom_c: std::marker::PhantomData,
    };
    let mut inputs = [0u8; N];
    let mut i = 0;
    while i < N {
        inputs[i] = t.u8();
        let out = q.do_work(inputs[i]);
        assert!(out == 0x100 | inputs[i] as u16, "every call returns the output for its own input");
        assert!(!q.state.lock().unwrap().doing_work, "the working flag is cleared when the call returns");
        i += 1;
    }
    let core = q.get_core();
    assert!(core.nseen == N && core.works == N, "the core sees each input exactly once, one call each");
    let mut i = 0;
    while i < N {
        assert!(core.seen[i] == inputs[i], "inputs reach the core in call order");
        i += 1;
    }
    assert!(core.last_taken == 1, "a lone caller's batch is its own input, also when the core refuses batching");
    vcover!(limit == 0, "core refuses batching");
    vcover!(limit == 2, "core accepts batching");
    drop(core);
    core::mem::forget(q);
}
harness!(#[kani::stub(std::sync::Condvar::notify_one, noop_notify)] queue_sequential_1, 2, |t| { sequential::<1>(t) });
harness!(#[kani::stub(std::sync::Condvar::notify_one, noop_notify)] queue_sequential_3, 4, |t| { sequential::<3>(t) });

harness_list!(queue_sequential_1, queue_sequential_3);
