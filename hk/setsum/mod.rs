// In-crate harnesses for `setsum` (C14): the private hash-to-columns reduction, the multiset
// laws with the item hash replaced by an uninterpreted table, and SHA3 anchors on concrete items.
#![allow(dead_code, unused_imports, static_mut_refs, clippy::all)]
#[macro_use]
#[path = "/verif/hk/vk.rs"]
mod vk;
use super::*;
use vk::Tape;

/// The published primes, restated (the oracle does not read SETSUM_PRIMES).
const P: [u32; 8] = [
    4294967291, 4294967279, 4294967231, 4294967197, 4294967189, 4294967161, 4294967143, 4294967111,
];

// every 32-byte hash: column i = LE32(hash[4i..4i+4]) mod P[i]
harness!(hash_to_state_def, 32, |t| {
    let s = hash_to_state(t);
    let mut i = 0;
    while i < 8 {
        let w = u32::from_le_bytes([t[4 * i], t[4 * i + 1], t[4 * i + 2], t[4 * i + 3]]);
        assert!(s[i] as u64 == (w as u64) % (P[i] as u64), "column = little-endian word mod its prime");
        assert!(s[i] < P[i], "column canonical");
        i += 1;
    }
    vcover!(u32::from_le_bytes([t[0], t[1], t[2], t[3]]) >= P[0], "word above the prime");
    vcover!(u32::from_le_bytes([t[28], t[29], t[30], t[31]]) == P[7], "word exactly the prime");
});

// ---- multiset laws with the item hash as an uninterpreted function -------------------------

static mut TABLE: [[u32; 8]; 3] = [[0; 8]; 3];
/// Stub for `item_vectored_to_state`: equal items (first byte of the first piece identifies
/// the item) map to equal, otherwise arbitrary, canonical states.
fn table_stub(item: &[&[u8]]) -> [u32; 8] {
    let id = item[0][0] as usize % 3;
    unsafe { TABLE[id] }
}
fn set_table(t: &mut Tape) -> bool {
    let mut ok = true;
    let mut i = 0;
    while i < 3 {
        let mut j = 0;
        while j < 8 {
            let v = t.u32();
            unsafe { TABLE[i][j] = v };
            ok &= v < P[j];
            j += 1;
        }
        i += 1;
    }
    ok
}

fn setup(t: &mut Tape) -> Option<(u8, u8, u8)> {
    let canonical = set_table(t);
    if !canonical {
        return None;
    }
    Some((t.u8() % 3, t.u8() % 3, t.u8() % 3)) // repeated items allowed
}

// one law per query: modular-arithmetic equalities over several symbolic 256-bit states are
// hard SAT instances (associativity alone: 85 s)
harness!(#[kani::stub(item_vectored_to_state, table_stub)] ms_order2, 100, |t| {
    let mut t = Tape::new(t);
    let it = setup(&mut t);
    vassume!(it.is_some());
    let (a, b, _) = it.unwrap();
    let mut s1 = Setsum::default();
    s1.insert(&[a]);
    s1.insert(&[b]);
    let mut s2 = Setsum::default();
    s2.insert(&[b]);
    s2.insert(&[a]);
    assert!(s1 == s2, "insertion order of two items does not matter");
    vcover!(a != b, "two distinct items");
    vcover!(a == b, "one item twice");
});
harness!(#[kani::stub(item_vectored_to_state, table_stub)] ms_order3, 100, |t| {
    let mut t = Tape::new(t);
    let it = setup(&mut t);
    vassume!(it.is_some());
    let (a, b, c) = it.unwrap();
    let mut s1 = Setsum::default();
    s1.insert(&[a]);
    s1.insert(&[b]);
    s1.insert(&[c]);
    let mut s2 = Setsum::default();
    s2.insert(&[c]);
    s2.insert(&[a]);
    s2.insert(&[b]);
    assert!(s1 == s2, "insertion order of three items does not matter");
    vcover!(a != b && b != c && a != c, "three distinct items");
});
harness!(#[kani::stub(item_vectored_to_state, table_stub)] ms_union, 100, |t| {
    let mut t = Tape::new(t);
    let it = setup(&mut t);
    vassume!(it.is_some());
    let (a, b, c) = it.unwrap();
    let mut all = Setsum::default();
    all.insert(&[a]);
    all.insert(&[b]);
    all.insert(&[c]);
    let mut x = Setsum::default();
    x.insert(&[a]);
    x.insert(&[b]);
    let mut y = Setsum::default();
    y.insert(&[c]);
    assert!(x + y == all, "setsum of a union is the sum of the setsums");
    vcover!(a == b && b == c, "one item three times");
});
harness!(#[kani::stub(item_vectored_to_state, table_stub)] ms_remove, 100, |t| {
    let mut t = Tape::new(t);
    let it = setup(&mut t);
    vassume!(it.is_some());
    let (a, b, _) = it.unwrap();
    let mut x = Setsum::default();
    x.insert(&[b]);
    let mut z = Setsum::default();
    z.insert(&[a]);
    z.insert(&[b]);
    z.remove(&[a]);
    assert!(z == x, "remove undoes insert");
    z.remove(&[b]);
    assert!(z == Setsum::default(), "removing everything gives the empty setsum");
    let mut y = Setsum::default();
    y.insert(&[a]);
    let mut both = Setsum::default();
    both.insert(&[a]);
    both.insert(&[b]);
    assert!(both - y == x, "subtracting a part leaves the rest");
    vcover!(a != b, "two distinct items");
});

// ---- SHA3 anchors: concrete items through the real sha3 code --------------------------------
// expected = SHA3-256 columns computed by the runner with hashlib (checked at run time against
// these constants: see spec.py `pre_c14`).
pub const ANCHOR_EMPTY: [u32; 8] = [4173791143, 1725374143, 1447543121, 1658216864, 1308590325, 4199103460, 1259001986, 1245968512];
pub const ANCHOR_ABC: [u32; 8] = [2807928890, 2988827215, 756505604, 3180385131, 1846042501, 1532140862, 1172488006, 840254225];

harness!(sha3_anchor_empty, 1, |t| {
    assert!(item_vectored_to_state(&[]) == ANCHOR_EMPTY, "empty item hashes to SHA3-256 of the empty string");
    assert!(item_vectored_to_state(&[b""]) == ANCHOR_EMPTY, "one empty piece is the empty item");
});
harness!(sha3_anchor_abc, 1, |t| {
    assert!(item_vectored_to_state(&[b"abc"]) == ANCHOR_ABC, "item hash is SHA3-256 of the bytes");
    assert!(item_vectored_to_state(&[b"a", b"bc"]) == ANCHOR_ABC, "pieces are concatenated (split 1|2)");
    assert!(item_vectored_to_state(&[b"ab", b"c"]) == ANCHOR_ABC, "pieces are concatenated (split 2|1)");
    assert!(item_vectored_to_state(&[b"", b"abc", b""]) == ANCHOR_ABC, "empty pieces contribute nothing");
    let mut s = Setsum::default();
    s.insert(b"abc");
    let d = s.digest();
    let mut i = 0;
    while i < 8 {
        assert!(u32::from_le_bytes([d[4 * i], d[4 * i + 1], d[4 * i + 2], d[4 * i + 3]]) == ANCHOR_ABC[i], "digest column");
        i += 1;
    }
});

harness_list!(hash_to_state_def, ms_order2, ms_order3, ms_union, ms_remove, sha3_anchor_empty, sha3_anchor_abc);
