// Stubs for the error type's constructors (DESIGN.md 1.2 rule 6): building S-expression error
// *texts* dominates symbolic execution and no property depends on the text, only on is_err().
#![allow(dead_code)]
use handled::{SError, SExpr};
pub fn format(_: core::fmt::Arguments<'_>) -> String {
    String::new()
}
pub fn serr_new(_: &str) -> SError {
    SError::from(SExpr::Atom(String::new()))
}
pub fn serr_with_str(s: SError, _: &str) -> SError {
    s
}
pub fn serr_with_atom<T: ToString>(s: SError, _: &str, _: T) -> SError {
    s
}
pub fn serr_with_string(s: SError, _: &str, _: &str) -> SError {
    s
}
pub fn serr_with_debug<T: core::fmt::Debug>(s: SError, _: &str, _: T) -> SError {
    s
}
