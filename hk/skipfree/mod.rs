// In-crate harnesses for `skipfree` (C17, C07).  Compiled into the real crate only under
// `cargo kani` (cfg kani) or for native replay (cfg rescrv_blue_verif).
#![allow(dead_code, unused_imports, static_mut_refs, clippy::all)]
#[macro_use]
#[path = "/verif/hk/vk.rs"]
mod vk;
use super::*;
use vk::Tape;

// ------------------------------------------------------------------ hook state

struct Ctl {
    active: bool,
    heights: [usize; 8],
    next_h: usize,
    // nested interference
    budget: usize,
    depth: usize,
    list: *const (),
    choices: [u8; 8],
    cp: usize,
    keys: [u8; 4],
    kp: usize,
    done: [u8; 4],
    ndone: usize,
    nested_ran: usize,
    retried: bool,
    h1: bool,
}
static mut CTL: Ctl = Ctl {
    active: false,
    heights: [1; 8],
    next_h: 0,
    budget: 0,
    depth: 0,
    list: core::ptr::null(),
    choices: [0; 8],
    cp: 0,
    keys: [0; 4],
    kp: 0,
    done: [0; 4],
    ndone: 0,
    nested_ran: 0,
    retried: false,
    h1: false,
};
fn ctl() -> &'static mut Ctl {
    unsafe { &mut *core::ptr::addr_of_mut!(CTL) }
}

/// Hook in `SkipList::random_height`: scripted heights replace `rand` while a harness is active.
pub(crate) fn scripted_height(max: usize) -> Option<usize> {
    let c = ctl();
    if !c.active {
        return None;
    }
    let h = c.heights[c.next_h % 8];
    c.next_h += 1;
    assert!(h >= 1 && h <= max);
    Some(h)
}

type SL = SkipList<u8, u8, 2>;
type SL1 = SkipList<u8, u8, 1>;

/// Hook in `SkipList::insert` between `set_next` of the new node and the publishing CAS:
/// here another "thread" may run one whole operation (decided by the tape).
pub(crate) fn yield_point() {
    let c = ctl();
    if !c.active || c.budget == 0 || c.depth >= 2 || c.list.is_null() {
        return;
    }
    let choice = c.choices[c.cp % 8];
    c.cp += 1;
    match choice % 3 {
        0 => {}
        1 => {
            // a second writer inserts its next key, to completion
            if c.kp < 4 && c.keys[c.kp] != 0xff {
                c.budget -= 1;
                c.depth += 1;
                c.nested_ran += 1;
                let k = c.keys[c.kp];
                c.kp += 1;
                if c.h1 {
                    let sl = unsafe { &*(c.list as *const SL1) };
                    sl.insert(k, k ^ 0x5a);
                } else {
                    let sl = unsafe { &*(c.list as *const SL) };
                    sl.insert(k, k ^ 0x5a);
                }
                let c = ctl();
                c.done[c.ndone] = k;
                c.ndone += 1;
                c.depth -= 1;
            }
        }
        _ => {
            // a reader: every completed insert is found; iteration strictly increases
            c.budget -= 1;
            c.depth += 1;
            if c.h1 {
                let sl = unsafe { &*(c.list as *const SL1) };
                reader_checks(sl);
            } else {
                let sl = unsafe { &*(c.list as *const SL) };
                reader_checks(sl);
            }
            ctl().depth -= 1;
        }
    }
}

fn reader_checks<const MH: usize>(sl: &SkipList<u8, u8, MH>) {
    let c = ctl();
    let mut i = 0;
    while i < c.ndone {
        assert!(sl.contains(&c.done[i]), "reader: completed insert is found by contains");
        i += 1;
    }
    let mut it = sl.iter();
    it.seek_to_first();
    let mut prev: Option<u8> = None;
    let mut seen = 0usize;
    let mut steps = 0;
    while it.is_valid() && steps < 5 {
        let k = *it.key();
        if let Some(p) = prev {
            assert!(p < k, "reader: iteration strictly increasing");
        }
        let mut j = 0;
        while j < c.ndone {
            if c.done[j] == k {
                seen += 1;
            }
            j += 1;
        }
        prev = Some(k);
        it.next();
        steps += 1;
    }
    assert!(!it.is_valid(), "reader: iteration ends");
    assert!(seen == c.ndone, "reader: every completed insert appears in a full iteration");
}

/// For harnesses of dependent crates (lsmtk's memtable): script the node heights.
pub fn script_heights(heights: &[usize]) {
    activate(heights);
}
pub fn unscript_heights() {
    deactivate();
}

fn activate(heights: &[usize]) {
    let c = ctl();
    *c = Ctl {
        active: true,
        heights: [1; 8],
        next_h: 0,
        budget: 0,
        depth: 0,
        list: core::ptr::null(),
        choices: [0; 8],
        cp: 0,
        keys: [0xff; 4],
        kp: 0,
        done: [0; 4],
        ndone: 0,
        nested_ran: 0,
        retried: false,
        h1: false,
    };
    let mut i = 0;
    while i < heights.len() && i < 8 {
        c.heights[i] = heights[i];
        i += 1;
    }
}
fn deactivate() {
    ctl().active = false;
}

// ------------------------------------------------------------------ sequential model

fn sort3(k: &mut [(u8, u8)]) {
    // insertion sort, tiny
    let n = k.len();
    let mut i = 1;
    while i < n {
        let mut j = i;
        while j > 0 && k[j - 1].0 > k[j].0 {
            k.swap(j - 1, j);
            j -= 1;
        }
        i += 1;
    }
}

/// Position of the reference iterator: before-first (the head sentinel), at index, or at the end.
#[derive(Copy, Clone, PartialEq, Eq)]
enum Pos {
    Head,
    At(usize),
    End,
}

fn model_step<const N: usize>(s: &[(u8, u8); N], p: Pos, op: u8, arg: u8) -> Pos {
    match op % 5 {
        0 => {
            // seek_to_first: the first node (or end when empty)
            if N == 0 { Pos::End } else { Pos::At(0) }
        }
        1 => Pos::End, // seek_to_last
        2 => {
            // seek(arg): first key >= arg
            let mut i = 0;
            while i < N && s[i].0 < arg {
                i += 1;
            }
            if i < N { Pos::At(i) } else { Pos::End }
        }
        3 => match p {
            // next
            Pos::End => Pos::End,
            Pos::Head => if N == 0 { Pos::End } else { Pos::At(0) },
            Pos::At(i) => if i + 1 < N { Pos::At(i + 1) } else { Pos::End },
        },
        _ => match p {
            // prev
            Pos::End => if N == 0 { Pos::Head } else { Pos::At(N - 1) },
            Pos::Head => Pos::Head,
            Pos::At(i) => if i == 0 { Pos::Head } else { Pos::At(i - 1) },
        },
    }
}

fn apply(it: &mut SkipListIterator<u8, u8, 2>, op: u8, arg: u8) {
    match op % 5 {
        0 => it.seek_to_first(),
        1 => it.seek_to_last(),
        2 => it.seek(&arg),
        3 => it.next(),
        _ => it.prev(),
    }
}

/// N inserts of distinct symbolic keys under a concrete height script, then a symbolic
/// K-call iterator program compared call by call with the sorted-array model.
fn seq<const N: usize, const K: usize>(t: &[u8], heights: [usize; N]) {
    seqp::<N, K>(t, heights, None)
}
/// Same with the call sequence fixed (`ops`), seek arguments still symbolic.
fn seqp<const N: usize, const K: usize>(t: &[u8], heights: [usize; N], ops: Option<[u8; K]>) {
    let mut t = Tape::new(t);
    let mut kv = [(0u8, 0u8); N];
    let mut i = 0;
    while i < N {
        kv[i] = (t.u8(), t.u8());
        i += 1;
    }
    // distinct keys (the precondition `insert` asserts)
    let mut i = 0;
    while i < N {
        let mut j = 0;
        while j < i {
            vassume!(kv[i].0 != kv[j].0);
            j += 1;
        }
        i += 1;
    }
    activate(&heights);
    let sl: SL = SkipList::default();
    let mut i = 0;
    while i < N {
        sl.insert(kv[i].0, kv[i].1);
        i += 1;
    }
    let mut sorted = kv;
    sort3(&mut sorted);
    // membership for an arbitrary probe
    let q = t.u8();
    let mut member = false;
    let mut i = 0;
    while i < N {
        member |= kv[i].0 == q;
        i += 1;
    }
    assert!(sl.contains(&q) == member, "contains(q) iff q was inserted");
    // iterator program
    let mut it = sl.iter();
    let mut pos = Pos::End; // a fresh iterator is at the end (null)
    let mut k = 0;
    while k < K {
        let op = match ops {
            Some(o) => o[k],
            None => t.u8(),
        };
        let arg = t.u8();
        vassume!(op < 5);
        apply(&mut it, op, arg);
        pos = model_step::<N>(&sorted, pos, op, arg);
        match pos {
            Pos::At(i) => {
                assert!(it.is_valid(), "iterator valid where the model is positioned");
                assert!(*it.key() == sorted[i].0, "iterator key equals model key");
                assert!(*it.value() == sorted[i].1, "iterator value equals model value");
            }
            _ => assert!(!it.is_valid(), "iterator invalid where the model is off the ends"),
        }
        k += 1;
    }
    vcover!(N >= 2 && kv[0].0 > kv[1].0, "descending insert order");
    vcover!(N >= 2 && kv[0].0 < kv[1].0, "ascending insert order");
    vcover!(N >= 2 && kv[0].0 == kv[1].0.wrapping_add(1), "adjacent keys");
    vcover!(member, "probe is a member");
    deactivate();
    core::mem::forget(it);
    core::mem::forget(sl);
}

// call codes: 0 seek_to_first, 1 seek_to_last, 2 seek(arg), 3 next, 4 prev
macro_rules! seq2 {
    ($name:ident, $h:expr, $ops:expr) => {
        harness!($name, 11, |t| { seqp::<2, 2>(t, $h, Some($ops)) });
    };
}
seq2!(s2_h11_seek_next, [1, 1], [2, 3]);
seq2!(s2_h11_seek_prev, [1, 1], [2, 4]);
seq2!(s2_h11_last_prev, [1, 1], [1, 4]);
seq2!(s2_h11_first_prev, [1, 1], [0, 4]);
seq2!(s2_h21_seek_next, [2, 1], [2, 3]);
seq2!(s2_h21_seek_prev, [2, 1], [2, 4]);
seq2!(s2_h21_last_prev, [2, 1], [1, 4]);
seq2!(s2_h12_seek_next, [1, 2], [2, 3]);
seq2!(s2_h12_seek_prev, [1, 2], [2, 4]);
seq2!(s2_h12_last_prev, [1, 2], [1, 4]);
seq2!(s2_h22_seek_next, [2, 2], [2, 3]);
seq2!(s2_h22_seek_prev, [2, 2], [2, 4]);
seq2!(s2_h22_last_prev, [2, 2], [1, 4]);
seq2!(s2_h22_first_prev, [2, 2], [0, 4]);
harness!(s2_h11_first_prev_next, 11, |t| { seqp::<2, 3>(t, [1, 1], Some([0, 4, 3])) });
harness!(s2_h22_last_next_prev, 11, |t| { seqp::<2, 3>(t, [2, 2], Some([1, 3, 4])) });
harness!(s2_h11_forward, 11, |t| { seqp::<2, 3>(t, [1, 1], Some([0, 3, 3])) });
harness!(s2_h21_backward, 11, |t| { seqp::<2, 4>(t, [2, 1], Some([1, 4, 4, 4])) });
harness!(s3_h111_member, 13, |t| { seqp::<3, 0>(t, [1, 1, 1], Some([])) });
harness!(s3_h121_seek, 13, |t| { seqp::<3, 1>(t, [1, 2, 1], Some([2])) });
harness!(s3_h212_seek, 13, |t| { seqp::<3, 1>(t, [2, 1, 2], Some([2])) });

// ------------------------------------------------------------------ iterator outlives the list

/// "An iterator remains valid for as long as it is held": the list is dropped at a symbolic
/// point of a symbolic iterator program; every later call must be memory-safe and still show
/// the contents.  The memory-safety oracle is CBMC's pointer checks (natively: Miri).
fn after_drop<const K: usize>(t: &[u8], heights: [usize; 2], ops: [u8; K]) {
    let mut t = Tape::new(t);
    let a = (t.u8(), t.u8());
    let b = (t.u8(), t.u8());
    vassume!(a.0 != b.0);
    let drop_at = t.u8();
    vassume!((drop_at as usize) < K);
    activate(&heights);
    let sl: SL = SkipList::default();
    sl.insert(a.0, a.1);
    sl.insert(b.0, b.1);
    let mut sorted = [a, b];
    sort3(&mut sorted);
    let mut it = sl.iter();
    let mut sl = Some(sl);
    let mut pos = Pos::End;
    let mut k = 0;
    while k < K {
        if k == drop_at as usize {
            drop(sl.take());
        }
        let op = ops[k];
        let arg = t.u8();
        apply(&mut it, op, arg);
        pos = model_step::<2>(&sorted, pos, op, arg);
        match pos {
            Pos::At(i) => {
                assert!(it.is_valid(), "iterator valid after the list is dropped");
                assert!(*it.key() == sorted[i].0, "iterator key intact after the list is dropped");
                assert!(*it.value() == sorted[i].1, "iterator value intact after the list is dropped");
            }
            _ => assert!(!it.is_valid(), "iterator invalid where the model is off the ends"),
        }
        k += 1;
    }
    vcover!(drop_at == 0, "list dropped before the first iterator call");
    vcover!(drop_at as usize == K - 1, "list dropped before the last iterator call");
    deactivate();
    drop(it); // the iterator is the last owner: freeing here must be clean too
}
harness!(iter_after_drop_h11_seek_next, 11, |t| { after_drop::<2>(t, [1, 1], [2, 3]) });
harness!(iter_after_drop_h21_seek_prev, 11, |t| { after_drop::<2>(t, [2, 1], [2, 4]) });
harness!(iter_after_drop_h12_last_prev, 11, |t| { after_drop::<2>(t, [1, 2], [1, 4]) });

/// Cloned iterators share ownership: dropping the list and one clone leaves the other usable.
harness!(iter_clone_after_drop, 4, |t| {
    let mut t = Tape::new(t);
    let a = (t.u8(), t.u8());
    let b = (t.u8(), t.u8());
    vassume!(a.0 < b.0);
    activate(&[1, 2]);
    let sl: SL = SkipList::default();
    sl.insert(b.0, b.1);
    sl.insert(a.0, a.1);
    let mut it = sl.iter();
    it.seek_to_first();
    let it2 = it.clone();
    drop(sl);
    drop(it);
    let mut it2 = it2;
    assert!(it2.is_valid() && *it2.key() == a.0 && *it2.value() == a.1, "clone still at the first key");
    it2.next();
    assert!(it2.is_valid() && *it2.key() == b.0, "clone advances to the second key");
    it2.next();
    assert!(!it2.is_valid(), "clone reaches the end");
    deactivate();
    drop(it2);
});

// ------------------------------------------------------------------ nested interference

/// One insert whose every yield point may host a complete second operation (another insert
/// or a reader), nesting depth <= 2.  Reaches the CAS-failure / re-search path that no
/// sequential run reaches.
fn nested<const M: usize, const MH: usize>(t: &[u8], heights: [usize; 4], budget: usize) {
    let mut t = Tape::new(t);
    let mut keys = [0xffu8; 4];
    let mut i = 0;
    while i < M {
        keys[i] = t.u8();
        vassume!(keys[i] != 0xff);
        let mut j = 0;
        while j < i {
            vassume!(keys[i] != keys[j]);
            j += 1;
        }
        i += 1;
    }
    activate(&heights);
    let sl: SkipList<u8, u8, MH> = SkipList::default();
    {
        let c = ctl();
        let mut i = 0;
        while i < 8 {
            c.choices[i] = t.u8();
            i += 1;
        }
        c.keys = keys;
        c.kp = 1;
        c.budget = budget;
        c.h1 = MH == 1;
        c.list = &sl as *const SkipList<u8, u8, MH> as *const ();
    }
    // the outer writer inserts keys[0]; interference may insert keys[1..]
    sl.insert(keys[0], keys[0] ^ 0x5a);
    {
        let c = ctl();
        c.done[c.ndone] = keys[0];
        c.ndone += 1;
        c.budget = 0;
    }
    // whatever the interference did not insert is inserted now, sequentially
    loop {
        let c = ctl();
        if c.kp >= M {
            break;
        }
        let k = c.keys[c.kp];
        c.kp += 1;
        sl.insert(k, k ^ 0x5a);
        let c = ctl();
        c.done[c.ndone] = k;
        c.ndone += 1;
    }
    // final state: every key present exactly once, strictly increasing, values intact
    assert!(ctl().ndone == M, "every insert completed");
    reader_checks(&sl);
    let mut it = sl.iter();
    it.seek_to_first();
    let mut n = 0;
    while it.is_valid() && n < 5 {
        assert!(*it.value() == *it.key() ^ 0x5a, "value belongs to key");
        n += 1;
        it.next();
    }
    assert!(n == M, "exactly the inserted keys, each once");
    // and backwards
    it.seek_to_last();
    let mut n = 0;
    let mut last: Option<u8> = None;
    it.prev();
    while it.is_valid() && n < 5 {
        if let Some(l) = last {
            assert!(*it.key() < l, "reverse iteration strictly decreasing");
        }
        last = Some(*it.key());
        n += 1;
        it.prev();
    }
    assert!(n == M, "reverse iteration visits every key once");
    vcover!(ctl().nested_ran >= 1, "a nested insert ran inside the outer insert");
    vcover!(ctl().nested_ran >= 1 && keys[1] < keys[0], "nested insert of a smaller key");
    vcover!(ctl().nested_ran >= 1 && keys[1] > keys[0], "nested insert of a larger key");
    deactivate();
    core::mem::forget(it);
    core::mem::forget(sl);
}
/// The same with CONCRETE keys (the symbolic-key queries above do not finish): the shape of
/// the list is then concrete for the solver, only the interference choices and the
/// nesting are symbolic.  `PRE` keys are inserted first without interference.
fn nested_concrete<const M: usize, const P: usize>(t: &[u8], pre: [u8; P], keys: [u8; M], heights: [usize; 8], budget: usize) {
    let mut t = Tape::new(t);
    activate(&heights);
    let sl: SL = SkipList::default();
    let mut i = 0;
    while i < P {
        sl.insert(pre[i], pre[i] ^ 0x5a);
        let c = ctl();
        c.done[c.ndone] = pre[i];
        c.ndone += 1;
        i += 1;
    }
    {
        let c = ctl();
        let mut i = 0;
        while i < 8 {
            c.choices[i] = t.u8();
            i += 1;
        }
        let mut i = 0;
        while i < M {
            c.keys[i] = keys[i];
            i += 1;
        }
        c.kp = 1;
        c.budget = budget;
        c.list = &sl as *const SL as *const ();
    }
    sl.insert(keys[0], keys[0] ^ 0x5a);
    {
        let c = ctl();
        c.done[c.ndone] = keys[0];
        c.ndone += 1;
        c.budget = 0;
    }
    loop {
        let c = ctl();
        if c.kp >= M {
            break;
        }
        let k = c.keys[c.kp];
        c.kp += 1;
        sl.insert(k, k ^ 0x5a);
        let c = ctl();
        c.done[c.ndone] = k;
        c.ndone += 1;
    }
    assert!(ctl().ndone == M + P, "every insert completed");
    reader_checks(&sl);
    vcover!(ctl().nested_ran >= 1, "a nested insert ran inside the outer insert (the CAS fails and is retried)");
    deactivate();
    core::mem::forget(sl);
}
// outer 5 then nested 7 (lands between the outer key's predecessor and its observed successor)
harness!(nested_c_5_7, 8, |t| { nested_concrete::<2, 0>(t, [], [5, 7], [1; 8], 1) });
harness!(nested_c_7_5, 8, |t| { nested_concrete::<2, 0>(t, [], [7, 5], [1; 8], 1) });
harness!(nested_c_5_7_before_9, 8, |t| { nested_concrete::<2, 1>(t, [9], [5, 7], [1; 8], 1) });
harness!(nested_c_5_7_h2, 8, |t| { nested_concrete::<2, 1>(t, [9], [5, 7], [1, 2, 2, 1, 1, 1, 1, 1], 1) });

harness!(nested2_mh1, 10, |t| { nested::<2, 1>(t, [1, 1, 1, 1], 1) });
harness!(nested3_mh1, 11, |t| { nested::<3, 1>(t, [1, 1, 1, 1], 2) });
harness!(nested2_h11, 10, |t| { nested::<2, 2>(t, [1, 1, 1, 1], 1) });
harness!(nested2_h21, 10, |t| { nested::<2, 2>(t, [2, 1, 1, 1], 1) });

harness_list!(
    s2_h11_seek_next, s2_h11_seek_prev, s2_h11_last_prev, s2_h11_first_prev,
    s2_h21_seek_next, s2_h21_seek_prev, s2_h21_last_prev,
    s2_h12_seek_next, s2_h12_seek_prev, s2_h12_last_prev,
    s2_h22_seek_next, s2_h22_seek_prev, s2_h22_last_prev, s2_h22_first_prev,
    s2_h11_first_prev_next, s2_h22_last_next_prev, s2_h11_forward, s2_h21_backward, s3_h111_member, s3_h121_seek, s3_h212_seek,
    iter_after_drop_h11_seek_next, iter_after_drop_h21_seek_prev, iter_after_drop_h12_last_prev,
    iter_clone_after_drop,
    nested_c_5_7, nested_c_7_5, nested_c_5_7_before_9, nested_c_5_7_h2, nested2_mh1, nested3_mh1, nested2_h11, nested2_h21,
);
