// In-crate harnesses for `sst` (C10): dividing keys, minimal successor, size/ordering guards.
#![allow(dead_code, unused_imports, clippy::all)]
#[macro_use]
#[path = "/verif/hk/vk.rs"]
mod vk;
#[path = "/verif/hk/serr.rs"]
mod serr;
use super::*;
use vk::Tape;

/// (key asc, timestamp desc) written out, independent of KeyRef's Ord.
fn kt_cmp(ka: &[u8], ta: u64, kb: &[u8], tb: u64) -> Ordering {
    let mut i = 0;
    while i < ka.len() && i < kb.len() {
        if ka[i] != kb[i] {
            return if ka[i] < kb[i] { Ordering::Less } else { Ordering::Greater };
        }
        i += 1;
    }
    if ka.len() != kb.len() {
        return if ka.len() < kb.len() { Ordering::Less } else { Ordering::Greater };
    }
    // equal keys: larger timestamp sorts first
    if ta > tb { Ordering::Less } else if ta < tb { Ordering::Greater } else { Ordering::Equal }
}

/// KeyRef's ordering is (key asc, timestamp desc): everything else relies on it.
fn keyref_order<const LA: usize, const LB: usize>(t: &[u8]) {
    let mut t = Tape::new(t);
    let a: [u8; LA] = t.arr();
    let b: [u8; LB] = t.arr();
    let (ta, tb) = (t.u64(), t.u64());
    assert!(KeyRef::new(&a, ta).cmp(&KeyRef::new(&b, tb)) == kt_cmp(&a, ta, &b, tb), "KeyRef order is key ascending, timestamp descending");
    vcover!(LA != LB || (a == b[..] && ta != tb), "same key, different timestamps");
}
harness_e!(keyref_order_2_2, 20, |t| { keyref_order::<2, 2>(t) });
harness_e!(keyref_order_1_2, 19, |t| { keyref_order::<1, 2>(t) });

/// divide_keys(l, r) for every l < r: result d with l <= d < r; none of its asserts fires.
fn divide<const LA: usize, const LB: usize>(t: &[u8]) {
    let mut t = Tape::new(t);
    let a: [u8; LA] = t.arr();
    let b: [u8; LB] = t.arr();
    let (ta, tb) = (t.u64(), t.u64());
    vassume!(kt_cmp(&a, ta, &b, tb) == Ordering::Less);
    let (dk, dt) = divide_keys(&a, ta, &b, tb);
    let lo = kt_cmp(&a, ta, &dk, dt);
    assert!(lo == Ordering::Less || lo == Ordering::Equal, "dividing key is not below the left key");
    assert!(kt_cmp(&dk, dt, &b, tb) == Ordering::Less, "dividing key is strictly below the right key");
    assert!(dk.len() <= LA, "dividing key is no longer than the left key");
    vcover!(LA < 2 || dk.len() < LA, "shortened dividing key");
    vcover!(LA == 0 || LB == 0 || LA != LB || (a == b[..]), "equal keys, adjacent timestamps");
    vcover!(LA == 0 || a[LA - 1] == 0xff, "0xff in the left key");
    core::mem::forget(dk);
}
harness_e!(divide_0_1, 17, |t| { divide::<0, 1>(t) });
harness_e!(divide_1_1, 18, |t| { divide::<1, 1>(t) });
harness_e!(divide_1_2, 19, |t| { divide::<1, 2>(t) });
harness_e!(divide_2_1, 19, |t| { divide::<2, 1>(t) });
harness_e!(divide_2_2, 20, |t| { divide::<2, 2>(t) });
harness_e!(divide_3_3, 22, |t| { divide::<3, 3>(t) });
harness_e!(divide_3_2, 21, |t| { divide::<3, 2>(t) });
harness_e!(divide_2_3, 21, |t| { divide::<2, 3>(t) });

/// minimal_successor_key(k, ts) is strictly above (k, ts) and divide_keys accepts the pair
/// (that is how `seal` uses it); for ts > 0 it is the immediate successor.
fn successor<const L: usize>(t: &[u8]) {
    let mut t = Tape::new(t);
    let k: [u8; L] = t.arr();
    let ts = t.u64();
    let (sk, st) = minimal_successor_key(&k, ts);
    assert!(kt_cmp(&k, ts, &sk, st) == Ordering::Less, "successor is strictly above the key");
    if ts > 0 {
        assert!(sk.len() == L && st == ts - 1, "for a positive timestamp: same key, next timestamp");
    } else {
        assert!(sk.len() == L + 1 && sk[L] == 0 && st == 0, "at timestamp 0: the key extended by a zero byte");
    }
    let mut i = 0;
    while i < L {
        assert!(sk[i] == k[i], "successor keeps the key as prefix");
        i += 1;
    }
    let (dk, dt) = divide_keys(&k, ts, &sk, st);
    assert!(kt_cmp(&dk, dt, &sk, st) == Ordering::Less, "the final dividing key sorts below the successor");
    vcover!(ts == 0, "timestamp zero");
    vcover!(ts == u64::MAX, "largest timestamp");
    core::mem::forget(sk);
    core::mem::forget(dk);
}
harness_e!(successor_0, 8, |t| { successor::<0>(t) });
harness_e!(successor_2, 10, |t| { successor::<2>(t) });

/// size guards: exact thresholds.
static ZEROS: [u8; MAX_VALUE_LEN + 1] = [0u8; MAX_VALUE_LEN + 1];
harness_e!(size_guards, 8, |t| {
    let mut t = Tape::new(t);
    let n = t.u64() as usize;
    assert!(check_table_size(n).is_ok() == (n < TABLE_FULL_SIZE), "table size guard threshold");
    assert!(check_key_len(&ZEROS[..MAX_KEY_LEN]).is_ok(), "largest key accepted");
    assert!(check_key_len(&ZEROS[..MAX_KEY_LEN + 1]).is_err(), "oversize key rejected");
    assert!(check_value_len(&ZEROS[..MAX_VALUE_LEN]).is_ok(), "largest value accepted");
    assert!(check_value_len(&ZEROS[..MAX_VALUE_LEN + 1]).is_err(), "oversize value rejected");
    vcover!(n == TABLE_FULL_SIZE, "exactly full");
});

harness_list!(
    keyref_order_2_2, keyref_order_1_2,
    divide_0_1, divide_1_1, divide_1_2, divide_2_1, divide_2_2, divide_3_3, divide_3_2, divide_2_3,
    successor_0, successor_2, size_guards,
);
