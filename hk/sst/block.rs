// In-crate harness for `sst::block` (C10): BlockBuilder rejects out-of-order and oversize input
// and leaves its state untouched.  One inductive step from an ARBITRARY prior builder state
// (any last key/timestamp, any buffer) covers every history that leads there.
#![allow(dead_code, unused_imports, clippy::all)]
#[macro_use]
#[path = "/verif/hk/vk.rs"]
mod vk;
#[path = "/verif/hk/serr.rs"]
mod serr;
use super::*;
use crate::{MAX_KEY_LEN, MAX_VALUE_LEN};
use vk::Tape;

fn kt_cmp(ka: &[u8], ta: u64, kb: &[u8], tb: u64) -> Ordering {
    let mut i = 0;
    while i < ka.len() && i < kb.len() {
        if ka[i] != kb[i] {
            return if ka[i] < kb[i] { Ordering::Less } else { Ordering::Greater };
        }
        i += 1;
    }
    if ka.len() != kb.len() {
        return if ka.len() < kb.len() { Ordering::Less } else { Ordering::Greater };
    }
    if ta > tb { Ordering::Less } else if ta < tb { Ordering::Greater } else { Ordering::Equal }
}

static ZEROS: [u8; MAX_VALUE_LEN + 1] = [0u8; MAX_VALUE_LEN + 1];

fn reject<const LL: usize, const LK: usize>(t: &[u8]) {
    let mut t = Tape::new(t);
    let last: [u8; LL] = t.arr();
    let last_ts = t.u64();
    let key: [u8; LK] = t.arr();
    let ts = t.u64();
    let buf: [u8; 3] = t.arr();
    let is_del = t.bool();
    let mut b = BlockBuilder::new(BlockBuilderOptions::default());
    b.last_key = last.to_vec();
    b.last_timestamp = last_ts;
    b.buffer = buf.to_vec();
    // arbitrary restart bookkeeping: a restart may or may not be due
    let (bsr, kvsr) = (t.u64(), t.u64());
    b.bytes_since_restart = bsr;
    b.key_value_pairs_since_restart = kvsr;
    // the builder's own ordering decision equals the definition
    let in_order = kt_cmp(&last, last_ts, &key, ts) == Ordering::Less;
    assert!(b.enforce_sort_order(&key, ts).is_ok() == in_order, "sort-order guard accepts exactly strictly increasing (key asc, timestamp desc)");
    vassume!(!in_order);
    let r = if is_del { b.del(&key, ts) } else { b.put(&key, ts, &[7u8]) };
    assert!(r.is_err(), "out-of-order entry is rejected");
    assert!(b.buffer.len() == 3 && b.buffer[0] == buf[0] && b.buffer[1] == buf[1] && b.buffer[2] == buf[2], "rejected entry leaves the buffer unchanged");
    assert!(b.last_key.len() == LL && b.last_timestamp == last_ts, "rejected entry leaves the last key unchanged");
    assert!(b.restarts.len() == 1 && b.bytes_since_restart == bsr && b.key_value_pairs_since_restart == kvsr, "rejected entry leaves the restart state unchanged");
    vcover!(b.should_restart(), "a restart was due when the entry was rejected");
    vcover!(LL != LK || kt_cmp(&last, last_ts, &key, ts) == Ordering::Equal, "duplicate (key, timestamp)");
    vcover!(LL != LK || (last == key[..] && ts > last_ts), "same key, newer timestamp after older");
    vcover!(is_del, "tombstone");
    core::mem::forget(b);
}
harness_e!(reject_unordered_1_1, 39, |t| { reject::<1, 1>(t) });
harness_e!(reject_unordered_2_1, 40, |t| { reject::<2, 1>(t) });
harness_e!(reject_unordered_2_2, 41, |t| { reject::<2, 2>(t) });
harness_e!(reject_unordered_0_0, 37, |t| { reject::<0, 0>(t) });

harness_e!(reject_oversize, 9, |t| {
    let mut t = Tape::new(t);
    let ts = t.u64();
    let which = t.u8() % 3;
    let mut b = BlockBuilder::new(BlockBuilderOptions::default());
    let r = match which {
        0 => b.put(&ZEROS[..MAX_KEY_LEN + 1], ts, &[1u8]),
        1 => b.del(&ZEROS[..MAX_KEY_LEN + 1], ts),
        _ => b.put(&[1u8], ts, &ZEROS[..MAX_VALUE_LEN + 1]),
    };
    assert!(r.is_err(), "oversize key/value is rejected");
    assert!(b.buffer.is_empty() && b.last_key.is_empty() && b.last_timestamp == u64::MAX && b.restarts.len() == 1, "rejected entry writes nothing");
    vcover!(which == 2, "oversize value");
    core::mem::forget(b);
});

harness_list!(reject_unordered_1_1, reject_unordered_2_1, reject_unordered_2_2, reject_unordered_0_0, reject_oversize);
