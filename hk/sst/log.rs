#![allow(dead_code)]
