// In-crate harnesses for `sst::log` (C12, C09): the write -> read round trip decomposed at the
// byte image (DESIGN.md 3/C12).  The builder's private `bytes_written` is preset to
// 2^20 - D so the 1 MiB boundary arithmetic is exercised with ~60 bytes of data; the reader is
// a harness `Read + Seek` serving its bytes at that absolute offset.
//
//   T  natively, on every run: the real writer is run on a base filling and on one perturbed
//      filling per payload variable; positions that never change are LAYOUT, positions that
//      follow exactly one variable are that variable's, positions that follow several are the
//      CRC.  Nothing about the format is written by hand.  (`verif_template` test prints the
//      tables; the runner stores them in /verif/build/gen/log_templates.rs.)
//   W  solver: for ALL payload values the real writer's output equals the instantiated template.
//   R  solver: for ALL payload values the real reader on the instantiated template yields
//      exactly the appended entries, then Ok(None); and on every cut of it a prefix of the
//      batches then end-or-error.
//   W and R together give the round trip for that shape.
#![allow(dead_code, unused_imports, clippy::all)]
#[macro_use]
#[path = "/verif/hk/vk.rs"]
mod vk;
#[path = "/verif/hk/serr.rs"]
mod serr;
use super::*;
use vk::Tape;

#[cfg(kani)]
include!("/verif/build/gen/log_templates.rs");

const BLOCK: u64 = 1 << 20;
/// The checksum the solver sees instead of CRC-32C (whose table lookups / CPU dispatch CBMC
/// cannot execute): cheap, data dependent, and the SAME function the template instantiation
/// uses, so writer and reader are still checked for agreeing on WHICH bytes are summed.
fn stub_crc(buf: &[u8]) -> u32 {
    let mut x = 0x5au8;
    let mut i = 0;
    while i < buf.len() {
        x = x.rotate_left(1) ^ buf[i];
        i += 1;
    }
    u32::from_le_bytes([x, !x, x.rotate_left(3), 0xc3])
}
#[cfg(kani)]
fn stub_setsum_put(s: &mut Setsum, _: &[u8], _: u64, _: &[u8]) {
    let mut one = [0u8; 32];
    one[0] = 1;
    *s += Setsum::from_digest(one);
}
#[cfg(kani)]
fn stub_setsum_del(s: &mut Setsum, _: &[u8], _: u64) {
    let mut one = [0u8; 32];
    one[0] = 1;
    *s += Setsum::from_digest(one);
}

/// `sst::system_error` builds its text with `io::Error::to_string()` (the whole fmt machinery,
/// not covered by the format! stub); only is_err() matters.
#[cfg(kani)]
fn stub_system_error(e: std::io::Error) -> SError {
    core::mem::forget(e);
    serr::serr_new("")
}

/// `sst::unpack_log_header` / `unpack_key_value_entry_prototk` render the inner error with
/// `to_string()` (Display over the S-expression: recursive formatting); only is_err() matters.
#[cfg(kani)]
fn stub_unpack_err(e: prototk::SError) -> SError {
    core::mem::forget(e);
    serr::serr_new("")
}

fn opts() -> LogOptions {
    LogOptions { write_buffer: 0, read_buffer: 0, rollover_size: 1 << 30 }
}

// ------------------------------------------------------------------ shapes and payloads

/// One shape: distance D of the first byte from the next 1 MiB boundary, a first batch
/// put(key[LK], ts, value[LV]) and optionally a second batch del(key[1], ts).
/// Payload variables, in order: key bytes, ts, value bytes, [key2, ts2]; all < 0x80 (the 1-byte
/// varint class, where a variable is stored as the byte itself).
pub const fn nvars(lk: usize, lv: usize, second: u8) -> usize {
    lk + 1 + lv + match second { 0 => 0, 1 => 2, _ => 3 }
}

/// Timestamps are concrete (5 and 6, the 1-byte varint class): a SYMBOLIC varint byte makes the
/// reader's entry decoder branch into every varint length and the query does not finish
/// (measured: >30 min vs. 3 min).  Keys and values stay symbolic.
fn fix_timestamps(p: &mut [u8], lk: usize, lv: usize, second: u8) {
    p[lk] = 5;
    if second != 0 {
        p[lk + 2 + lv] = 6;
    }
}

fn run_writer(d: u64, lk: usize, lv: usize, second: u8, p: &[u8]) -> Result<Vec<u8>, SError> {
    let mut out: Vec<u8> = Vec::new();
    {
        let mut lb = LogBuilder::from_write(opts(), &mut out)?;
        lb.bytes_written = BLOCK - d;
        if second == 2 {
            // ONE batch of two entries
            let mut wb = WriteBatch::default();
            wb.put(&p[..lk], p[lk] as u64, &p[lk + 1..lk + 1 + lv])?;
            wb.put(&p[lk + 1 + lv..lk + 2 + lv], p[lk + 2 + lv] as u64, &p[lk + 3 + lv..lk + 4 + lv])?;
            lb.append(&wb)?;
        } else {
            lb.put(&p[..lk], p[lk] as u64, &p[lk + 1..lk + 1 + lv])?;
            if second == 1 {
                lb.del(&p[lk + 1 + lv..lk + 2 + lv], p[lk + 2 + lv] as u64)?;
            }
        }
        lb.flush()?;
    }
    Ok(out)
}

// ------------------------------------------------------------------ the harness reader

pub struct ImgReader<const N: usize> {
    img: [u8; N],
    len: usize, // bytes available (a cut shortens it)
    base: u64,  // absolute offset of img[0]
    pos: u64,   // absolute position
}
impl<const N: usize> Read for ImgReader<N> {
    fn read(&mut self, buf: &mut [u8]) -> std::io::Result<usize> {
        let end = self.base + self.len as u64;
        if self.pos < self.base || self.pos >= end {
            return Ok(0);
        }
        let off = (self.pos - self.base) as usize;
        let avail = self.len - off;
        let n = if buf.len() < avail { buf.len() } else { avail };
        let mut i = 0;
        while i < n {
            buf[i] = self.img[off + i];
            i += 1;
        }
        self.pos += n as u64;
        Ok(n)
    }
}
impl<const N: usize> Seek for ImgReader<N> {
    fn seek(&mut self, to: SeekFrom) -> std::io::Result<u64> {
        self.pos = match to {
            SeekFrom::Start(x) => x,
            SeekFrom::Current(d) => (self.pos as i64 + d) as u64,
            SeekFrom::End(d) => ((self.base + self.len as u64) as i64 + d) as u64,
        };
        Ok(self.pos)
    }
}

/// Instantiate a template: layout bytes as observed, payload positions from `p`, and each
/// checksum group g (kind 0xF0 | g<<2 | byte) = `crc(img[a..b])` over the byte range the
/// derivation found that group to cover.
fn instantiate<const N: usize>(layout: &[u8; N], kind: &[u8; N], crcs: &[(usize, usize)], p: &[u8], crc: fn(&[u8]) -> u32) -> [u8; N] {
    let mut img = [0u8; N];
    let mut i = 0;
    while i < N {
        img[i] = match kind[i] {
            0 => layout[i],
            v if v >= 0xf0 => 0,
            v => p[(v - 1) as usize],
        };
        i += 1;
    }
    let mut g = 0;
    while g < crcs.len() {
        let (a, b) = crcs[g];
        let c = crc(&img[a..b]).to_le_bytes();
        let mut i = 0;
        while i < N {
            if kind[i] >= 0xf0 && ((kind[i] & 0x0f) >> 2) as usize == g {
                img[i] = c[(kind[i] & 3) as usize];
            }
            i += 1;
        }
        g += 1;
    }
    img
}

// ------------------------------------------------------------------ W: writer == template

fn writer_half<const N: usize, const NV: usize>(t: &[u8], d: u64, lk: usize, lv: usize, second: u8, mk: fn(&[u8], fn(&[u8]) -> u32) -> [u8; N]) {
    let mut p = [0u8; NV];
    let mut i = 0;
    while i < NV {
        p[i] = t[i] & 0x7f;
        i += 1;
    }
    fix_timestamps(&mut p, lk, lv, second);
    let out = run_writer(d, lk, lv, second, &p);
    assert!(out.is_ok(), "the writer accepts the batches");
    let out = out.unwrap();
    assert!(out.len() == N, "the image has the observed length for every payload");
    let img = mk(&p, stub_crc);
    let mut i = 0;
    while i < N {
        assert!(out[i] == img[i], "the writer's output is the observed layout with the payload filled in");
        i += 1;
    }
    vcover!(p[0] != 0x11, "a payload other than the ones the template was derived from");
    core::mem::forget(out);
}

// ------------------------------------------------------------------ R: reader on the template

/// `cut`: number of image bytes the reader can see (N = intact).
fn reader_half<const N: usize, const NV: usize>(t: &[u8], d: u64, lk: usize, lv: usize, second: u8, mk: fn(&[u8], fn(&[u8]) -> u32) -> [u8; N], cut_mode: isize) {
    let mut p = [0u8; NV];
    let mut i = 0;
    while i < NV {
        p[i] = t[i] & 0x7f;
        i += 1;
    }
    fix_timestamps(&mut p, lk, lv, second);
    // cut: -1 intact, -2 symbolic, otherwise a concrete truncation length
    let cut = if cut_mode == -1 || cut_mode == -4 { N } else if cut_mode == -2 { t[NV] as usize } else { cut_mode as usize };
    vassume!(cut <= N);
    let img = mk(&p, stub_crc);
    let r = ImgReader::<N> { img, len: cut, base: BLOCK - d, pos: BLOCK - d };
    let it = LogIterator::from_reader(opts(), r);
    assert!(it.is_ok(), "from_reader Ok");
    let mut it = it.unwrap();
    // batch 1: put(key, ts, value)
    let mut got = 0;
    let mut errored = false;
    match it.next() {
        Ok(Some(kvr)) if cut_mode == -4 => {
            let _ = kvr;
            got = 1;
        }
        Ok(Some(kvr)) => {
            assert!(kvr.key.len() == lk && kvr.timestamp == p[lk] as u64, "first entry: key length and timestamp");
            let mut i = 0;
            while i < lk {
                assert!(kvr.key[i] == p[i], "first entry: key bytes");
                i += 1;
            }
            match kvr.value {
                Some(v) => {
                    assert!(v.len() == lv, "first entry: value length");
                    let mut i = 0;
                    while i < lv {
                        assert!(v[i] == p[lk + 1 + i], "first entry: value bytes");
                        i += 1;
                    }
                }
                None => assert!(false, "a put is read back as a tombstone"),
            }
            got = 1;
        }
        Ok(None) => {}
        Err(_) => errored = true,
    }
    if got == 1 && second != 0 {
        match it.next() {
            Ok(Some(kvr)) if cut_mode == -4 => {
                let _ = kvr;
                got = 2;
            }
            Ok(Some(kvr)) => {
                assert!(kvr.key.len() == 1 && kvr.key[0] == p[lk + 1 + lv] && kvr.timestamp == p[lk + 2 + lv] as u64, "second entry: key and timestamp");
                if second == 1 {
                    assert!(kvr.value.is_none(), "second entry: the tombstone");
                } else {
                    assert!(kvr.value.map(|v| v.len() == 1 && v[0] == p[lk + 3 + lv]) == Some(true), "second entry: the value");
                }
                got = 2;
            }
            Ok(None) => {}
            Err(_) => errored = true,
        }
    }
    let total = if second != 0 { 2 } else { 1 };
    if second == 2 {
        assert!(got != 1, "a batch of two entries is returned whole or not at all");
    }
    if cut == N {
        assert!(got == total && !errored, "an intact log yields every appended batch");
    }
    if cut_mode == -4 {
        assert!(matches!(it.next(), Ok(None)), "after the last batch the log ends");
    }
    if !errored && cut_mode != -1 {
        // after the last entry (or the torn tail): end, or an error -- never another entry
        match it.next() {
            Ok(Some(_)) => assert!(false, "the reader invents an entry"),
            Ok(None) => {}
            Err(_) => {}
        }
    }
    vcover!(cut_mode > -1 || cut_mode == -2 || cut == N, "intact image");
    vcover!(cut_mode != -2 || (cut < N && errored), "a cut that the reader reports as an error");
    vcover!(cut_mode != -2 || (cut < N && !errored && got < total), "a cut that the reader takes as the end of the log");
    vcover!(cut_mode < 0 || got < total, "the truncated image loses the tail");
    core::mem::forget(it);
}


/// A log holding ONE batch, cut at `cut` < N bytes: no batch is complete, so the very first
/// `next()` must not return an entry (the prefix of the appended batches is empty).  The harness
/// stops there, which keeps the query small enough to decide on a changed reader as well.
#[cfg(kani)]
fn torn_half<const N: usize, const NV: usize>(t: &[u8], d: u64, lk: usize, lv: usize, second: u8, mk: fn(&[u8], fn(&[u8]) -> u32) -> [u8; N], cut: usize) {
    let mut p = [0u8; NV];
    let mut i = 0;
    while i < NV {
        p[i] = t[i] & 0x7f;
        i += 1;
    }
    fix_timestamps(&mut p, lk, lv, second);
    assert!(cut < N && second != 1, "harness: a single batch, really truncated");
    let img = mk(&p, stub_crc);
    let r = ImgReader::<N> { img, len: cut, base: BLOCK - d, pos: BLOCK - d };
    let it = LogIterator::from_reader(opts(), r);
    assert!(it.is_ok(), "from_reader Ok");
    let mut it = it.unwrap();
    let mut bad = false;
    match it.next() {
        Ok(Some(_)) => bad = true,
        Ok(None) => {}
        Err(e) => core::mem::forget(e),
    }
    assert!(!bad, "no entry is returned from a batch whose tail is missing");
    core::mem::forget(it);
}

// ------------------------------------------------------------------ shapes (name, D, LK, LV, second)

macro_rules! log_shape {
    ($w:ident, $r:ident, $c:ident, $d:expr, $lk:expr, $lv:expr, $second:expr, $len:ident, $img:ident) => {
        harness!(
            #[kani::stub(crc32c::crc32c, stub_crc)]
            #[kani::stub(crate::system_error, stub_system_error)]
            #[kani::stub(crate::unpack_log_header, stub_unpack_err)]
            #[kani::stub(crate::unpack_key_value_entry_prototk, stub_unpack_err)]
            #[kani::stub(crate::setsum::Setsum::put, stub_setsum_put)]
            #[kani::stub(crate::setsum::Setsum::del, stub_setsum_del)]
            #[kani::stub(alloc::fmt::format, serr::format)]
            #[kani::stub(handled::SError::new, serr::serr_new)]
            #[kani::stub(handled::SError::with_code, serr::serr_with_str)]
            #[kani::stub(handled::SError::with_message, serr::serr_with_str)]
            #[kani::stub(handled::SError::with_atom_field, serr::serr_with_atom)]
            #[kani::stub(handled::SError::with_string_field, serr::serr_with_string)]
            #[kani::stub(handled::SError::with_debug_field, serr::serr_with_debug)]
            $w, nvars($lk, $lv, $second), |t| {
                #[cfg(kani)]
                writer_half::<$len, { nvars($lk, $lv, $second) }>(t, $d, $lk, $lv, $second, $img);
                #[cfg(not(kani))]
                native_shape_check($d, $lk, $lv, $second, t, -1);
            });
        harness!(
            #[kani::stub(crc32c::crc32c, stub_crc)]
            #[kani::stub(crate::system_error, stub_system_error)]
            #[kani::stub(crate::unpack_log_header, stub_unpack_err)]
            #[kani::stub(crate::unpack_key_value_entry_prototk, stub_unpack_err)]
            #[kani::stub(alloc::fmt::format, serr::format)]
            #[kani::stub(handled::SError::new, serr::serr_new)]
            #[kani::stub(handled::SError::with_code, serr::serr_with_str)]
            #[kani::stub(handled::SError::with_message, serr::serr_with_str)]
            #[kani::stub(handled::SError::with_atom_field, serr::serr_with_atom)]
            #[kani::stub(handled::SError::with_string_field, serr::serr_with_string)]
            #[kani::stub(handled::SError::with_debug_field, serr::serr_with_debug)]
            $r, nvars($lk, $lv, $second) + 1, |t| {
                #[cfg(kani)]
                reader_half::<$len, { nvars($lk, $lv, $second) }>(t, $d, $lk, $lv, $second, $img, -1);
                #[cfg(not(kani))]
                native_shape_check($d, $lk, $lv, $second, t, -1);
            });
        harness!(
            #[kani::stub(crc32c::crc32c, stub_crc)]
            #[kani::stub(crate::system_error, stub_system_error)]
            #[kani::stub(crate::unpack_log_header, stub_unpack_err)]
            #[kani::stub(crate::unpack_key_value_entry_prototk, stub_unpack_err)]
            #[kani::stub(alloc::fmt::format, serr::format)]
            #[kani::stub(handled::SError::new, serr::serr_new)]
            #[kani::stub(handled::SError::with_code, serr::serr_with_str)]
            #[kani::stub(handled::SError::with_message, serr::serr_with_str)]
            #[kani::stub(handled::SError::with_atom_field, serr::serr_with_atom)]
            #[kani::stub(handled::SError::with_string_field, serr::serr_with_string)]
            #[kani::stub(handled::SError::with_debug_field, serr::serr_with_debug)]
            $c, nvars($lk, $lv, $second) + 1, |t| {
                #[cfg(kani)]
                reader_half::<$len, { nvars($lk, $lv, $second) }>(t, $d, $lk, $lv, $second, $img, -2);
                #[cfg(not(kani))]
                native_shape_check($d, $lk, $lv, $second, t, -2);
            });
    };
}
log_shape!(w_whole_d40, r_whole_d40, c_whole_d40, 40, 1, 1, 0, T_WHOLE_D40_LEN, img_whole_d40);
log_shape!(w_two_d60, r_two_d60, c_two_d60, 60, 2, 3, 1, T_TWO_D60_LEN, img_two_d60);
log_shape!(w_exact_d22, r_exact_d22, c_exact_d22, 22, 1, 1, 0, T_EXACT_D22_LEN, img_exact_d22);
log_shape!(w_pad_d5, r_pad_d5, c_pad_d5, 5, 1, 1, 0, T_PAD_D5_LEN, img_pad_d5);
log_shape!(w_split_d20, r_split_d20, c_split_d20, 20, 1, 1, 0, T_SPLIT_D20_LEN, img_split_d20);
log_shape!(w_pad_d1, r_pad_d1, c_pad_d1, 1, 1, 1, 0, T_PAD_D1_LEN, img_pad_d1);
log_shape!(w_bound_d0, r_bound_d0, c_bound_d0, 0, 1, 1, 0, T_BOUND_D0_LEN, img_bound_d0);
log_shape!(w_split_d21, r_split_d21, c_split_d21, 21, 1, 1, 0, T_SPLIT_D21_LEN, img_split_d21);
log_shape!(w_exact_d25, r_exact_d25, c_exact_d25, 25, 2, 3, 0, T_EXACT_D25_LEN, img_exact_d25);
log_shape!(w_two_pad_d23, r_two_pad_d23, c_two_pad_d23, 23, 1, 1, 1, T_TWO_PAD_D23_LEN, img_two_pad_d23);
log_shape!(w_pad_d19, r_pad_d19, c_pad_d19, 19, 1, 1, 0, T_PAD_D19_LEN, img_pad_d19);
log_shape!(w_split_d26, r_split_d26, c_split_d26, 26, 3, 4, 0, T_SPLIT_D26_LEN, img_split_d26);
log_shape!(w_batch2_d32, r_batch2_d32, c_batch2_d32, 32, 1, 1, 2, T_BATCH2_D32_LEN, img_batch2_d32);
log_shape!(w_batch2_d60, r_batch2_d60, c_batch2_d60, 60, 1, 1, 2, T_BATCH2_D60_LEN, img_batch2_d60);

/// Concrete truncation lengths (no format knowledge: relative to the block boundary and the
/// ends of the image): the image cut at `$cut` bytes.
macro_rules! log_cut {
    ($name:ident, $cut:expr, $d:expr, $lk:expr, $lv:expr, $second:expr, $len:ident, $img:ident) => {
        harness!(
            #[kani::stub(crc32c::crc32c, stub_crc)]
            #[kani::stub(crate::system_error, stub_system_error)]
            #[kani::stub(crate::unpack_log_header, stub_unpack_err)]
            #[kani::stub(crate::unpack_key_value_entry_prototk, stub_unpack_err)]
            #[kani::stub(alloc::fmt::format, serr::format)]
            #[kani::stub(handled::SError::new, serr::serr_new)]
            #[kani::stub(handled::SError::with_code, serr::serr_with_str)]
            #[kani::stub(handled::SError::with_message, serr::serr_with_str)]
            #[kani::stub(handled::SError::with_atom_field, serr::serr_with_atom)]
            #[kani::stub(handled::SError::with_string_field, serr::serr_with_string)]
            #[kani::stub(handled::SError::with_debug_field, serr::serr_with_debug)]
            $name, nvars($lk, $lv, $second) + 1, |t| {
                #[cfg(kani)]
                reader_half::<$len, { nvars($lk, $lv, $second) }>(t, $d, $lk, $lv, $second, $img, $cut);
                #[cfg(not(kani))]
                native_shape_check($d, $lk, $lv, $second, t, $cut);
            });
    };
}
// the split batch of two entries: cut at the boundary, one byte either side, right after the
// first byte, and one byte before the end
log_cut!(k_batch2_d32_at_boundary, 32, 32, 1, 1, 2, T_BATCH2_D32_LEN, img_batch2_d32);
log_cut!(k_batch2_d32_before_boundary, 31, 32, 1, 1, 2, T_BATCH2_D32_LEN, img_batch2_d32);
log_cut!(k_batch2_d32_after_boundary, 33, 32, 1, 1, 2, T_BATCH2_D32_LEN, img_batch2_d32);
log_cut!(k_batch2_d32_mid_padding, 26, 32, 1, 1, 2, T_BATCH2_D32_LEN, img_batch2_d32);
log_cut!(e_whole_d40, -4, 40, 1, 1, 0, T_WHOLE_D40_LEN, img_whole_d40);
log_cut!(e_split_d20, -4, 20, 1, 1, 0, T_SPLIT_D20_LEN, img_split_d20);
log_cut!(e_two_d60, -4, 60, 2, 3, 1, T_TWO_D60_LEN, img_two_d60);
log_cut!(k_whole_d40_last_byte, 21, 40, 1, 1, 0, T_WHOLE_D40_LEN, img_whole_d40);
log_cut!(k_whole_d40_first_byte, 1, 40, 1, 1, 0, T_WHOLE_D40_LEN, img_whole_d40);
log_cut!(k_whole_d40_empty, 0, 40, 1, 1, 0, T_WHOLE_D40_LEN, img_whole_d40);
log_cut!(k_split_d20_at_boundary, 20, 20, 1, 1, 0, T_SPLIT_D20_LEN, img_split_d20);
log_cut!(k_two_d60_between, 25, 60, 2, 3, 1, T_TWO_D60_LEN, img_two_d60);
log_cut!(k_two_d60_in_second, 30, 60, 2, 3, 1, T_TWO_D60_LEN, img_two_d60);


/// Torn single batch: first `next()` only (see `torn_half`).
macro_rules! log_torn {
    ($name:ident, $cut:expr, $d:expr, $lk:expr, $lv:expr, $second:expr, $len:ident, $img:ident) => {
        harness!(
            #[kani::stub(crc32c::crc32c, stub_crc)]
            #[kani::stub(crate::system_error, stub_system_error)]
            #[kani::stub(crate::unpack_log_header, stub_unpack_err)]
            #[kani::stub(crate::unpack_key_value_entry_prototk, stub_unpack_err)]
            #[kani::stub(alloc::fmt::format, serr::format)]
            #[kani::stub(handled::SError::new, serr::serr_new)]
            #[kani::stub(handled::SError::with_code, serr::serr_with_str)]
            #[kani::stub(handled::SError::with_message, serr::serr_with_str)]
            #[kani::stub(handled::SError::with_atom_field, serr::serr_with_atom)]
            #[kani::stub(handled::SError::with_string_field, serr::serr_with_string)]
            #[kani::stub(handled::SError::with_debug_field, serr::serr_with_debug)]
            $name, nvars($lk, $lv, $second) + 1, |t| {
                #[cfg(kani)]
                torn_half::<$len, { nvars($lk, $lv, $second) }>(t, $d, $lk, $lv, $second, $img, $cut);
                #[cfg(not(kani))]
                native_torn_check($d, $lk, $lv, $second, t, $cut);
            });
    };
}
log_torn!(t_batch2_d32_at_boundary, 32, 32, 1, 1, 2, T_BATCH2_D32_LEN, img_batch2_d32);
log_torn!(t_batch2_d32_after_boundary, 33, 32, 1, 1, 2, T_BATCH2_D32_LEN, img_batch2_d32);
log_torn!(t_batch2_d32_mid_padding, 26, 32, 1, 1, 2, T_BATCH2_D32_LEN, img_batch2_d32);
log_torn!(t_split_d26_at_boundary, 26, 26, 3, 4, 0, T_SPLIT_D26_LEN, img_split_d26);

/// (name, D, LK, LV, second) -- the list the template derivation walks.
pub const SHAPES: &[(&str, u64, usize, usize, u8)] = &[
    ("WHOLE_D40", 40, 1, 1, 0),
    ("TWO_D60", 60, 2, 3, 1),
    ("EXACT_D22", 22, 1, 1, 0),
    ("PAD_D5", 5, 1, 1, 0),
    ("SPLIT_D20", 20, 1, 1, 0),
    ("PAD_D1", 1, 1, 1, 0),
    ("BOUND_D0", 0, 1, 1, 0),
    ("SPLIT_D21", 21, 1, 1, 0),
    ("EXACT_D25", 25, 2, 3, 0),
    ("TWO_PAD_D23", 23, 1, 1, 1),
    ("PAD_D19", 19, 1, 1, 0),
    ("SPLIT_D26", 26, 3, 4, 0),
    ("BATCH2_D32", 32, 1, 1, 2),
    ("BATCH2_D60", 60, 1, 1, 2),
];

// ------------------------------------------------------------------ T: native template derivation

/// Derive (layout, kind, crc ranges) for one shape from the real writer: kind 0 = layout,
/// 1+i = payload variable i, 0xF0|g<<2|k = byte k of checksum group g.  A checksum group is a
/// 4-byte window w for which one byte range [a, b) of the image satisfies
/// crc32c(img[a..b]) == LE32(img[w..w+4]) in EVERY filling; the range is found by search, so
/// nothing about the frame format is assumed.  Panics if the observations are not explained.
#[cfg(not(kani))]
pub fn derive(d: u64, lk: usize, lv: usize, second: u8) -> (Vec<u8>, Vec<u8>, Vec<(usize, usize)>) {
    let nv = nvars(lk, lv, second);
    let base: Vec<u8> = (0..nv).map(|i| 0x11 + i as u8).collect();
    let img0 = run_writer(d, lk, lv, second, &base).expect("writer failed on the base filling");
    let mut imgs = vec![img0.clone()];
    for i in 0..nv {
        let mut p = base.clone();
        p[i] = 0x41 + i as u8;
        let img = run_writer(d, lk, lv, second, &p).expect("writer failed on a perturbed filling");
        assert_eq!(img.len(), img0.len(), "image length depends on a payload value");
        imgs.push(img);
    }
    let n = img0.len();
    let mut kind = vec![0u8; n];
    // checksum groups by search
    let mut crcs: Vec<(usize, usize)> = Vec::new();
    let mut w = 0;
    while w + 4 <= n {
        let mut found = None;
        'ranges: for a in 0..n {
            for b in a + 1..=n {
                if a < w + 4 && w < b {
                    continue; // a checksum does not cover itself
                }
                if imgs.iter().all(|img| crc32c::crc32c(&img[a..b]).to_le_bytes() == img[w..w + 4]) {
                    found = Some((a, b));
                    break 'ranges;
                }
            }
        }
        if let Some(r) = found {
            let g = crcs.len();
            assert!(g < 4, "more than 4 checksum groups");
            for k in 0..4 {
                kind[w + k] = 0xf0 | ((g as u8) << 2) | k as u8;
            }
            crcs.push(r);
            w += 4;
        } else {
            w += 1;
        }
    }
    for j in 0..n {
        if kind[j] != 0 {
            continue;
        }
        let who: Vec<usize> = (0..nv).filter(|&i| imgs[i + 1][j] != img0[j]).collect();
        assert!(who.len() <= 1, "position {} follows several payload variables but is not a checksum", j);
        if who.len() == 1 {
            let i = who[0];
            assert_eq!(img0[j], base[i], "a payload position does not hold the variable itself");
            assert_eq!(imgs[i + 1][j], 0x41 + i as u8, "a payload position does not follow the variable");
            kind[j] = 1 + i as u8;
        }
    }
    for i in 0..nv {
        assert_eq!(kind.iter().filter(|&&k| k == 1 + i as u8).count(), 1, "variable {} does not occupy exactly one position", i);
    }
    // the scheme must reproduce every observed image with the real checksum
    for (f, img) in imgs.iter().enumerate() {
        let mut p = base.clone();
        if f > 0 {
            p[f - 1] = 0x41 + (f - 1) as u8;
        }
        let mut arr = [0u8; 128];
        let mut karr = [0u8; 128];
        arr[..n].copy_from_slice(&img0);
        karr[..n].copy_from_slice(&kind);
        let got = instantiate::<128>(&arr, &karr, &crcs, &p, crc32c::crc32c);
        assert_eq!(&got[..n], &img[..], "template does not reproduce filling {}", f);
    }
    (img0, kind, crcs)
}

#[cfg(all(test, not(kani)))]
#[test]
fn verif_template() {
    if std::env::var("VERIF_TEMPLATE").is_err() {
        return;
    }
    println!("TEMPLATE-BEGIN");
    std::panic::set_hook(Box::new(|_| {}));
    for (name, d, lk, lv, second) in SHAPES {
        let (d, lk, lv, second) = (*d, *lk, *lv, *second);
        let r = std::panic::catch_unwind(move || derive(d, lk, lv, second));
        let (layout, kind, crcs) = match r {
            Ok(x) => x,
            Err(e) => {
                let msg = e.downcast_ref::<String>().cloned().or_else(|| e.downcast_ref::<&str>().map(|s| s.to_string())).unwrap_or_default();
                println!("// TEMPLATE-FAIL {} {}", name, msg.replace('\n', " "));
                println!("pub const T_{}_LEN: usize = 1;", name);
                println!("pub const T_{}_LAYOUT: [u8; 1] = [0];", name);
                println!("pub const T_{}_KIND: [u8; 1] = [0];", name);
                println!("pub const T_{}_CRCS: [(usize, usize); 0] = [];", name);
                println!("pub fn img_{}(_p: &[u8], _crc: fn(&[u8]) -> u32) -> [u8; 1] {{ [0] }}", name.to_lowercase());
                continue;
            }
        };
        println!("pub const T_{}_LEN: usize = {};", name, layout.len());
        println!("pub const T_{}_LAYOUT: [u8; {}] = {:?};", name, layout.len(), layout);
        println!("pub const T_{}_KIND: [u8; {}] = {:?};", name, kind.len(), kind);
        println!("pub const T_{}_CRCS: [(usize, usize); {}] = {:?};", name, crcs.len(), crcs);
        // the same template as straight-line code (no loops for the solver to unroll)
        let mut f = format!("pub fn img_{}(p: &[u8], crc: fn(&[u8]) -> u32) -> [u8; {}] {{ let mut a: [u8; {}] = {:?};", name.to_lowercase(), layout.len(), layout.len(),
            layout.iter().zip(kind.iter()).map(|(b, k)| if *k == 0 { *b } else { 0 }).collect::<Vec<u8>>());
        for (i, k) in kind.iter().enumerate() {
            if *k != 0 && *k < 0xf0 {
                f += &format!(" a[{}] = p[{}];", i, k - 1);
            }
        }
        for (g, (a, b)) in crcs.iter().enumerate() {
            f += &format!(" let c{} = crc(&a[{}..{}]).to_le_bytes();", g, a, b);
            for (i, k) in kind.iter().enumerate() {
                if *k >= 0xf0 && ((k & 0x0f) >> 2) as usize == g {
                    f += &format!(" a[{}] = c{}[{}];", i, g, k & 3);
                }
            }
        }
        f += " a }";
        println!("{}", f);
    }
    println!("TEMPLATE-END");
}

/// What a solver counterexample is replayed against natively: the REAL writer (real CRC, real
/// setsum) followed by the REAL reader on its output, for the same shape, payload and cut.  A
/// solver failure of W or R that is a genuine defect of the log shows up here as a broken round
/// trip; one that does not is a defect of the decomposition and is reported as inconclusive.
#[cfg(not(kani))]
fn native_shape_check(d: u64, lk: usize, lv: usize, second: u8, t: &[u8], cut_mode: isize) {
    let nv = nvars(lk, lv, second);
    let mut p: Vec<u8> = (0..nv).map(|i| t[i] & 0x7f).collect();
    fix_timestamps(&mut p, lk, lv, second);
    let img = run_writer(d, lk, lv, second, &p).expect("the writer rejects the batches");
    let cut = if cut_mode == -1 || cut_mode == -4 { img.len() } else if cut_mode == -2 { t[nv] as usize } else { cut_mode as usize };
    if cut > img.len() {
        return;
    }
    let mut arr = [0u8; 128];
    arr[..img.len()].copy_from_slice(&img);
    let r = ImgReader::<128> { img: arr, len: cut, base: BLOCK - d, pos: BLOCK - d };
    let mut it = LogIterator::from_reader(opts(), r).unwrap();
    let mut got = 0;
    let mut errored = false;
    loop {
        match it.next() {
            Ok(Some(kvr)) => {
                if got == 0 {
                    assert!(kvr.key == &p[..lk] && kvr.timestamp == p[lk] as u64 && kvr.value == Some(&p[lk + 1..lk + 1 + lv]), "first entry read back differs from what was appended");
                } else {
                    assert!(second != 0 && got == 1 && kvr.key == &p[lk + 1 + lv..lk + 2 + lv] && kvr.timestamp == p[lk + 2 + lv] as u64, "second entry read back differs from what was appended");
                    if second == 1 {
                        assert!(kvr.value.is_none(), "second entry read back differs from what was appended");
                    } else {
                        assert!(kvr.value == Some(&p[lk + 3 + lv..lk + 4 + lv]), "second entry read back differs from what was appended");
                    }
                }
                got += 1;
            }
            Ok(None) => break,
            Err(_) => {
                errored = true;
                break;
            }
        }
    }
    let total = if second != 0 { 2 } else { 1 };
    assert!(got <= total, "the reader yields more entries than were appended");
    if second == 2 {
        assert!(got != 1, "a batch of two entries is returned whole or not at all");
    }
    if cut == img.len() {
        assert!(got == total && !errored, "an intact log does not round trip");
    } else if second != 1 {
        assert!(got == 0, "an entry is returned from a batch whose tail is missing");
    }
}
/// Native counterpart of `torn_half`: REAL writer (real CRC, real setsum), image cut at `cut`,
/// REAL reader, first `next()` only.
#[cfg(not(kani))]
fn native_torn_check(d: u64, lk: usize, lv: usize, second: u8, t: &[u8], cut: usize) {
    let nv = nvars(lk, lv, second);
    let mut p: Vec<u8> = (0..nv).map(|i| t[i] & 0x7f).collect();
    fix_timestamps(&mut p, lk, lv, second);
    let img = run_writer(d, lk, lv, second, &p).expect("the writer rejects the batches");
    assert!(cut < img.len() && second != 1, "harness: a single batch, really truncated");
    let mut arr = [0u8; 128];
    arr[..img.len()].copy_from_slice(&img);
    let r = ImgReader::<128> { img: arr, len: cut, base: BLOCK - d, pos: BLOCK - d };
    let mut it = LogIterator::from_reader(opts(), r).unwrap();
    let bad = matches!(it.next(), Ok(Some(_)));
    assert!(!bad, "no entry is returned from a batch whose tail is missing");
}
#[cfg(not(kani))]
fn native_roundtrip(t: &[u8]) {
    let (_, d, lk, lv, second) = SHAPES[(t[0] as usize) % SHAPES.len()];
    native_shape_check(d, lk, lv, second, &t[1..], if t[15] & 1 == 1 { -2 } else { -1 });
}
harness!(native_roundtrip_selftest, 16, |t| {
    #[cfg(not(kani))]
    native_roundtrip(t);
});

harness_list!(
    native_roundtrip_selftest,
    w_whole_d40, r_whole_d40, c_whole_d40, w_two_d60, r_two_d60, c_two_d60, w_exact_d22, r_exact_d22, c_exact_d22,
    w_pad_d5, r_pad_d5, c_pad_d5, w_split_d20, r_split_d20, c_split_d20, w_pad_d1, r_pad_d1, c_pad_d1,
    w_bound_d0, r_bound_d0, c_bound_d0, w_split_d21, r_split_d21, c_split_d21, w_exact_d25, r_exact_d25, c_exact_d25,
    w_two_pad_d23, r_two_pad_d23, c_two_pad_d23, w_pad_d19, r_pad_d19, c_pad_d19, w_split_d26, r_split_d26, c_split_d26,
    w_batch2_d32, r_batch2_d32, c_batch2_d32, w_batch2_d60, r_batch2_d60, c_batch2_d60,
    k_batch2_d32_at_boundary, k_batch2_d32_before_boundary, k_batch2_d32_after_boundary, k_batch2_d32_mid_padding,
    e_whole_d40, e_split_d20, e_two_d60, k_whole_d40_last_byte, k_whole_d40_first_byte, k_whole_d40_empty, k_split_d20_at_boundary, k_two_d60_between, k_two_d60_in_second,
    t_batch2_d32_at_boundary, t_batch2_d32_after_boundary, t_batch2_d32_mid_padding, t_split_d26_at_boundary,
);
