// In-crate harnesses for `sst::gc` (C05): the four policy determiners against an independent
// reading of the documented policy, and the collector loop over a small array cursor.
#![allow(dead_code, unused_imports, clippy::all)]
#[macro_use]
#[path = "/verif/hk/vk.rs"]
mod vk;
#[path = "/verif/hk/serr.rs"]
mod serr;
use super::*;
use vk::Tape;

// ------------------------------------------------------------------ array cursor (as in hx/sst_cursors)

#[derive(Clone, Copy, PartialEq, Eq)]
struct E {
    k: [u8; 1],
    t: u64,
    tomb: bool,
    v: [u8; 1],
}
const E0: E = E { k: [0], t: 0, tomb: false, v: [0] };
#[derive(Clone)]
struct ArrCursor<const N: usize> {
    e: [E; N],
    n: usize,
    pos: isize,
}
impl<const N: usize> Cursor for ArrCursor<N> {
    fn seek_to_first(&mut self) -> Result<(), SError> {
        self.pos = -1;
        Ok(())
    }
    fn seek_to_last(&mut self) -> Result<(), SError> {
        self.pos = self.n as isize;
        Ok(())
    }
    fn seek(&mut self, key: &[u8]) -> Result<(), SError> {
        let mut i = 0;
        while i < self.n && self.e[i].k[0] < key[0] {
            i += 1;
        }
        self.pos = i as isize;
        Ok(())
    }
    fn prev(&mut self) -> Result<(), SError> {
        if self.pos >= 0 {
            self.pos -= 1;
        }
        Ok(())
    }
    fn next(&mut self) -> Result<(), SError> {
        if self.pos < self.n as isize {
            self.pos += 1;
        }
        Ok(())
    }
    fn key(&self) -> Option<KeyRef<'_>> {
        if self.pos >= 0 && (self.pos as usize) < self.n {
            let e = &self.e[self.pos as usize];
            Some(KeyRef::new(&e.k, e.t))
        } else {
            None
        }
    }
    fn value(&self) -> Option<&[u8]> {
        if self.pos >= 0 && (self.pos as usize) < self.n {
            let e = &self.e[self.pos as usize];
            if e.tomb { None } else { Some(&e.v) }
        } else {
            None
        }
    }
}
fn entry(t: &mut Tape) -> E {
    let k = t.u8() & 1; // two keys
    let ts = t.u8() & 7;
    let tomb = t.u8() & 1 == 1;
    E { k: [k], t: ts as u64, tomb, v: [0x40 | (k << 3) | ts] }
}
fn lt(a: &E, b: &E) -> bool {
    a.k[0] < b.k[0] || (a.k[0] == b.k[0] && a.t > b.t)
}

// ------------------------------------------------------------------ the policy, read from its documentation

/// Policies over which the harness ranges (concrete shape per instance, symbolic parameters).
#[derive(Clone, Copy)]
enum Pol {
    Versions(u64),
    Ttl(u64),           // threshold = now - micros, already computed
    Any(u64, u64),      // any(versions, ttl)
    All(u64, u64),      // all(versions, ttl)
}

/// One key's versions newest-first -> which are retained.  Written from the documentation of
/// `GarbageCollectionPolicy`, not from the code:
///  * a run of tombstones directly followed by a value is kept or dropped together; kept, it is
///    represented by its OLDEST tombstone and the value; it counts as two versions, a lone
///    value as one;
///  * versions=N keeps units while the running version count stays <= N;
///  * ttl keeps a unit iff its value's timestamp is >= the threshold;
///  * tombstones not followed by a value of the same key are dropped;
///  * any = or, all = and.
fn policy_keep<const N: usize>(e: &[E; N], n: usize, p: Pol) -> [bool; N] {
    let mut keep = [false; N];
    let mut i = 0;
    while i < n {
        // versions of key e[i].k from i
        let key = e[i].k[0];
        let mut count: u64 = 0;
        let mut j = i;
        while j < n && e[j].k[0] == key {
            // a unit starts at j: tombstones j..v-1, value at v
            let mut v = j;
            while v < n && e[v].k[0] == key && e[v].tomb {
                v += 1;
            }
            if v >= n || e[v].k[0] != key {
                // trailing tombstones: dropped
                j = v;
                break;
            }
            let has_tombs = v > j;
            count += if has_tombs { 2 } else { 1 };
            let by_versions = |nv: u64| count <= nv;
            let by_ttl = |th: u64| e[v].t >= th;
            let retained = match p {
                Pol::Versions(nv) => by_versions(nv),
                Pol::Ttl(th) => by_ttl(th),
                Pol::Any(nv, th) => by_versions(nv) || by_ttl(th),
                Pol::All(nv, th) => by_versions(nv) && by_ttl(th),
            };
            if retained {
                if has_tombs {
                    keep[v - 1] = true; // the oldest tombstone of the run
                }
                keep[v] = true;
            }
            j = v + 1;
        }
        // next key
        while i < n && e[i].k[0] == key {
            i += 1;
        }
    }
    keep
}

fn mk_policy(p: Pol, now: u64) -> GarbageCollectionPolicy {
    let nz = |x: u64| NonZeroU64::new(if x == 0 { 1 } else { x }).unwrap();
    match p {
        Pol::Versions(n) => GarbageCollectionPolicy::Versions { number: nz(n) },
        Pol::Ttl(th) => GarbageCollectionPolicy::Expires { micros: nz(now - th) },
        Pol::Any(n, th) => GarbageCollectionPolicy::Any(vec![
            GarbageCollectionPolicy::Versions { number: nz(n) },
            GarbageCollectionPolicy::Expires { micros: nz(now - th) },
        ]),
        Pol::All(n, th) => GarbageCollectionPolicy::All(vec![
            GarbageCollectionPolicy::Versions { number: nz(n) },
            GarbageCollectionPolicy::Expires { micros: nz(now - th) },
        ]),
    }
}

/// `SHAPE`: 0 versions, 1 ttl, 2 any, 3 all.
fn collector<const N: usize, const SHAPE: u8>(t: &[u8]) {
    let mut t = Tape::new(t);
    let mut e = [E0; N];
    let mut i = 0;
    while i < N {
        e[i] = entry(&mut t);
        i += 1;
    }
    let mut i = 1;
    while i < N {
        vassume!(lt(&e[i - 1], &e[i]));
        i += 1;
    }
    let nv = 1 + (t.u8() % 3) as u64;
    let th = (t.u8() % 9) as u64;
    let now = 100u64;
    let p = match SHAPE {
        0 => Pol::Versions(nv),
        1 => Pol::Ttl(th),
        2 => Pol::Any(nv, th),
        _ => Pol::All(nv, th),
    };
    let keep = policy_keep(&e, N, p);
    let mut cur = ArrCursor::<N> { e, n: N, pos: -1 };
    cur.next().unwrap(); // positioned at the first key, as `collector` requires
    let gc = mk_policy(p, now).collector(cur, now);
    assert!(gc.is_ok(), "collector returns Ok");
    let mut gc = gc.unwrap();
    // the collector yields exactly the kept entries, in order
    let mut i = 0;
    let mut dropped_newest_value = false;
    while i < N {
        if keep[i] {
            match gc.next() {
                Ok(Some(kr)) => {
                    assert!(kr.key.len() == 1 && kr.key[0] == e[i].k[0] && kr.timestamp == e[i].t, "collector yields what the policy reading retains, in order");
                }
                Ok(None) => assert!(false, "collector ends before the policy reading does"),
                Err(_) => assert!(false, "collector returns an error"),
            }
        } else if !e[i].tomb && (i == 0 || e[i - 1].k[0] != e[i].k[0]) {
            dropped_newest_value = true;
        }
        i += 1;
    }
    assert!(matches!(gc.next(), Ok(None)), "collector ends where the policy reading ends");
    assert!(matches!(gc.next(), Ok(None)), "collector stays ended");
    if SHAPE == 0 {
        assert!(!dropped_newest_value, "versions=N never drops the value that decides a key's current value");
    }
    vcover!(e[0].tomb && N > 1 && !e[1].tomb && e[1].k[0] == e[0].k[0], "tombstone run followed by a value");
    vcover!(N > 1 && e[N - 1].tomb, "trailing tombstone");
    vcover!(N > 1 && e[0].k[0] != e[N - 1].k[0], "two keys");
    vcover!(N < 2 || !keep[N - 1], "something dropped");
    core::mem::forget(gc);
}
harness_e!(collector_versions_2, 8, |t| { collector::<2, 0>(t) });
harness_e!(collector_versions_3, 11, |t| { collector::<3, 0>(t) });
harness_e!(collector_versions_4, 14, |t| { collector::<4, 0>(t) });
harness_e!(collector_ttl_3, 11, |t| { collector::<3, 1>(t) });
harness_e!(collector_any_3, 11, |t| { collector::<3, 2>(t) });
harness_e!(collector_all_3, 11, |t| { collector::<3, 3>(t) });

// ------------------------------------------------------------------ determiners, called directly

/// The collector's calling pattern on the determiner: successive units (key, tombstone run,
/// value timestamp), keys non-decreasing.  Three successive calls with symbolic contents
/// against the policy reading's running count / threshold test.
fn determiners(t: &[u8]) {
    let mut t = Tape::new(t);
    let nv = 1 + (t.u8() % 4) as u64;
    let th = t.u64();
    let mut vd = VersionsDeterminer::new(NonZeroU64::new(nv).unwrap());
    let mut ed = ExpiresDeterminer::new(th);
    let mut any = AnyDeterminer::new(vec![
        Box::new(VersionsDeterminer::new(NonZeroU64::new(nv).unwrap())),
        Box::new(ExpiresDeterminer::new(th)),
    ]);
    let mut all = AllDeterminer::new(vec![
        Box::new(VersionsDeterminer::new(NonZeroU64::new(nv).unwrap())),
        Box::new(ExpiresDeterminer::new(th)),
    ]);
    let mut cur_key: Option<u8> = None;
    let mut count: u64 = 0;
    let mut call = 0;
    let mut switched = false;
    while call < 3 {
        let key = [t.u8() & 1];
        if let Some(k) = cur_key {
            vassume!(key[0] >= k);
            switched |= key[0] != k;
        }
        let ntomb = (t.u8() % 3) as usize;
        let tombs = [t.u64(), t.u64()];
        let exists = t.u64();
        if cur_key != Some(key[0]) {
            cur_key = Some(key[0]);
            count = 0;
        }
        count += if ntomb > 0 { 2 } else { 1 };
        let by_v = count <= nv;
        let by_t = exists >= th;
        assert!(vd.retain(&key, &tombs[..ntomb], exists) == by_v, "versions=N: keep while the running count of versions stays <= N");
        assert!(ed.retain(&key, &tombs[..ntomb], exists) == by_t, "ttl: keep iff the value is not older than the threshold");
        assert!(any.retain(&key, &tombs[..ntomb], exists) == (by_v || by_t), "any = or");
        assert!(all.retain(&key, &tombs[..ntomb], exists) == (by_v && by_t), "all = and");
        call += 1;
    }
    vcover!(switched, "second key");
    vcover!(count > nv, "count exceeds N");
    core::mem::forget(any);
    core::mem::forget(all);
    core::mem::forget(vd);
}
harness_e!(determiners_3calls, 100, |t| { determiners(t) });

harness_list!(
    collector_versions_2, collector_versions_3, collector_versions_4, collector_ttl_3, collector_any_3, collector_all_3,
    determiners_3calls,
);
