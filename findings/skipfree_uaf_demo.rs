fn main() {
    let sl = skipfree::SkipList::<u64, u64>::default();
    sl.insert(7, 70);
    let mut it = sl.iter();
    it.seek_to_first();
    drop(sl); // documented: "This iterator will keep the body of the skiplist in-memory even after the skiplist itself goes out of scope."
    assert!(it.is_valid());
    println!("{} {}", it.key(), it.value());
}
