// Demonstrations (public API, ReferenceCursor children) of three cursor defects.
// Prints one line per case; "BAD" lines are violations of C11.
use sst::bounds_cursor::BoundsCursor;
use sst::concat_cursor::ConcatenatingCursor;
use sst::reference::{ReferenceBuilder, ReferenceTable};
use sst::{Builder, Cursor};
use std::ops::Bound;

fn table(e: &[(&[u8], u64, Option<&[u8]>)]) -> ReferenceTable {
    let mut b = ReferenceBuilder::default();
    for (k, t, v) in e {
        match v {
            Some(v) => b.put(k, *t, v).unwrap(),
            None => b.del(k, *t).unwrap(),
        }
    }
    b.seal().unwrap()
}
fn key<C: Cursor>(c: &C) -> Option<String> {
    c.key().map(|k| String::from_utf8_lossy(k.key).to_string())
}
fn main() {
    let mut bad = 0;
    // 1. concat seek into the second of two children
    let t0 = table(&[(b"A", 1, Some(b"a")), (b"B", 1, Some(b"b"))]);
    let t1 = table(&[(b"C", 1, Some(b"c")), (b"D", 1, Some(b"d"))]);
    let mut c = ConcatenatingCursor::new(vec![t0.cursor(), t1.cursor()]).unwrap();
    c.seek(b"C").unwrap();
    let got = key(&c);
    println!("{} concat.seek(C) over [A,B],[C,D] -> {:?} (want Some(C))", if got.as_deref() == Some("C") { "ok " } else { bad += 1; "BAD" }, got);
    // 2. concat next over a tombstone in a non-last child
    let t0 = table(&[(b"A", 1, None), (b"B", 1, Some(b"b"))]);
    let t1 = table(&[(b"C", 1, Some(b"c"))]);
    let mut c = ConcatenatingCursor::new(vec![t0.cursor(), t1.cursor()]).unwrap();
    c.seek_to_first().unwrap();
    c.next().unwrap();
    let got = key(&c);
    println!("{} concat first,next over [A(tombstone),B],[C] -> {:?} (want Some(A))", if got.as_deref() == Some("A") { "ok " } else { bad += 1; "BAD" }, got);
    // 3. bounds: seek past the end bound, then prev
    let t = table(&[(b"A", 1, Some(b"a")), (b"C", 1, Some(b"c")), (b"E", 1, Some(b"e"))]);
    let mut b = BoundsCursor::new(t.cursor(), &Bound::<Vec<u8>>::Unbounded, &Bound::Included(b"B".to_vec())).unwrap();
    b.seek(b"F").unwrap();
    b.prev().unwrap();
    let got = key(&b);
    println!("{} bounds(..=B).seek(F),prev over [A,C,E] -> {:?} (want Some(A))", if got.as_deref() == Some("A") { "ok " } else { bad += 1; "BAD" }, got);
    std::process::exit(if bad > 0 { 1 } else { 0 });
}
