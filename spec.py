"""What each property's check consists of: harness crates (groups) and harnesses.
See DESIGN.md; bounds are stated per harness and copied into the evidence."""
import os, sys
sys.path.insert(0, os.path.join(os.path.dirname(os.path.abspath(__file__)), "vlib"))
from runner import Group, H

HX = "/verif/hx/"
GROUPS = {
    "hx_setsum": Group("hx_setsum", "ext", path=HX + "setsum"),
}

def hs(group, mod, items=(), **common):
    """items: (ident, tier, cap, desc, bound[, extra dict])"""
    out = []
    for it in items:
        ident, tier, cap, desc, bound = it[:5]
        extra = dict(common)
        if len(it) > 5:
            extra.update(it[5])
        out.append(H(f"{group}/{ident}", group, f"{mod}{ident}::check", tier=tier, cap=cap,
                     desc=desc, bound=bound, **extra))
    return out

PROPS = {}

# ---------------------------------------------------------------- C14
ALL = "all values of the tape (no sampling)"
PROPS["C14"] = dict(
    harnesses=hs("hx_setsum", "", unwind=70, items=[
        ("add_state_def", "quick", 120, "add_state equals (a+b) mod p, canonical, commutative, identity", "all pairs of canonical states (2^512)"),
        ("add_state_assoc", "quick", 120, "add_state associative", "all triples of canonical states"),
        ("invert_canonical", "quick", 120, "a + invert(a) == 0; (b+a)+invert(a) == b", "all canonical a, b"),
        ("api_add_definition", "quick", 120, "x+y through the API equals the published column sum, for arbitrary digests incl. non-canonical columns", "all pairs of 32-byte digests"),
        ("api_sub_undoes_add", "quick", 120, "(x+y)-y == x, (x-y)+y == x, x-x == 0, -= agrees with -; no arithmetic panic", "all pairs of 32-byte digests"),
        ("api_assoc", "quick", 400, "associativity of + and - through the API", "all triples of 32-byte digests"),
        ("digest_roundtrip", "quick", 120, "from_digest(digest(s)) == s for parsed digests, sums and differences; little-endian columns", "all pairs of 32-byte digests"),
        ("hexdigest_roundtrip", "quick", 300, "hexdigest is 64 lower-case hex chars of digest(); from_hexdigest inverts it (formatting not stubbed)", "all 32-byte digests"),
        ("from_hexdigest_total", "quick", 300, "from_hexdigest on every 64-char ASCII string: no panic; lower-case hex accepted and denotes its bytes", "all 64-byte ASCII strings"),
        ("from_hexdigest_wrong_len", "quick", 120, "strings of other lengths are rejected", "lengths 0 and 40, all ASCII contents"),
    ]),
    level_text="Bounded model checking of the compiled setsum code: each law is one SAT query over ALL 32/64/96-byte inputs (2^256..2^768 states), so column values 0, 1, p-1, p and p..2^32-1 are all covered at once; loops are fixed-size (8 columns, 32/64 bytes) and fully unrolled with unwinding assertions on, so inside the algebra the claim is complete for the functions named; SHA3 is outside the solver.",
    level_note="Trusts Kani's MIR->goto translation, CBMC and CaDiCaL; the oracle is a u64 '%' reading of the published definition with the eight primes restated in the harness; SHA3-256 is not encoded symbolically (hash_to_state is checked for all 32-byte hashes; the hash itself is anchored on concrete items).",
    design_ref="DESIGN.md 2/C14",
    outside="collision resistance; SHA3-256 itself on symbolic input (anchored on concrete items only); non-ASCII strings passed to from_hexdigest",
    trusted=["Kani MIR->goto translation and CBMC's bit-precise semantics", "harness-side model: (a+b) mod p in u64 with the eight published primes"],
)
