"""What each property's check consists of: harness crates (groups) and harnesses.
See DESIGN.md; bounds are stated per harness and copied into the evidence."""
import os, sys
sys.path.insert(0, os.path.join(os.path.dirname(os.path.abspath(__file__)), "vlib"))
from runner import Group, H

HX = "/verif/hx/"
GROUPS = {
    "hx_setsum": Group("hx_setsum", "ext", path=HX + "setsum"),
}

def hs(group, mod, items=(), **common):
    """items: (ident, tier, cap, desc, bound[, extra dict])"""
    out = []
    for it in items:
        ident, tier, cap, desc, bound = it[:5]
        extra = dict(common)
        if len(it) > 5:
            extra.update(it[5])
        out.append(H(f"{group}/{ident}", group, f"{mod}{ident}::check", tier=tier, cap=cap,
                     desc=desc, bound=bound, **extra))
    return out

PROPS = {}
_SERR = ["alloc::fmt::format -> empty String", "handled::SError::{new,with_code,with_message,with_atom_field,with_string_field,with_debug_field} -> empty error (error texts only; is_err() preserved)"]  # _SERR_EARLY

def pre_c14():
    """The SHA3 anchors compiled into /verif/hk/setsum/mod.rs must equal hashlib's SHA3-256
    reduced by the published definition (independent tool agreement)."""
    import hashlib, re
    P = [4294967291, 4294967279, 4294967231, 4294967197, 4294967189, 4294967161, 4294967143, 4294967111]
    def st(b):
        h = hashlib.sha3_256(b).digest()
        return [int.from_bytes(h[4 * i:4 * i + 4], "little") % P[i] for i in range(8)]
    src = open("/verif/hk/setsum/mod.rs").read()
    for name, item in (("ANCHOR_EMPTY", b""), ("ANCHOR_ABC", b"abc")):
        m = re.search(name + r": \[u32; 8\] = \[([0-9, ]+)\]", src)
        got = [int(x) for x in m.group(1).split(",")]
        if got != st(item):
            return f"{name} in the harness differs from hashlib.sha3_256: {got} vs {st(item)}"
    # ... and the real sha3 code of /repo must produce them (ordinary native run of the two
    # anchor harness bodies: concrete input, labelled an anchored differential, not a solver claim)
    import runner
    for hn in ("sha3_anchor_empty", "sha3_anchor_abc"):
        h = H("setsum/" + hn, "setsum", "verif_harness::" + hn + "::check")
        rep = runner.native_replay(h, GROUPS["setsum"], b"\x00")
        if rep["panicked"] or not rep["returned"]:
            return ("violation", h, rep["msg"] or "anchor did not complete")
    return None

# ---------------------------------------------------------------- C14
ALL = "all values of the tape (no sampling)"
GROUPS["setsum"] = Group("setsum", "incrate", package="setsum", features=None)
PROPS["C14"] = dict(
    harnesses=hs("setsum", "verif_harness::", unwind=40, discover=True, items=[
        ("hash_to_state_def", "quick", 200, "private hash_to_state: column i = LE32(hash[4i..]) mod P[i], canonical", "all 32-byte hashes"),
        ("ms_order2", "quick", 900, "with the item hash an uninterpreted function (equal items -> equal canonical states): inserting two items in either order gives the same setsum", "all canonical hash states, items may repeat", dict(stubs=["setsum::item_vectored_to_state -> table of 3 arbitrary canonical states (SHA3 uninterpreted)"])),
        ("ms_remove", "quick", 900, "same stub: remove undoes insert; removing everything gives the empty setsum; subtracting a part leaves the rest", "all canonical hash states", dict(stubs=["setsum::item_vectored_to_state -> table (SHA3 uninterpreted)"])),
        ("ms_union", "thorough", 1800, "same stub: setsum of a union is the sum of the setsums (3 items)", "all canonical hash states", dict(stubs=["setsum::item_vectored_to_state -> table (SHA3 uninterpreted)"])),
        ("ms_order3", "thorough", 1800, "same stub: insertion order of three items does not matter", "all canonical hash states", dict(stubs=["setsum::item_vectored_to_state -> table (SHA3 uninterpreted)"])),
    ]) + hs("hx_setsum", "", unwind=70, discover=True, items=[
        ("add_state_def", "quick", 120, "add_state equals (a+b) mod p, canonical, commutative, identity", "all pairs of canonical states (2^512)"),
        ("add_state_assoc", "quick", 120, "add_state associative", "all triples of canonical states"),
        ("invert_canonical", "quick", 120, "a + invert(a) == 0; (b+a)+invert(a) == b", "all canonical a, b"),
        ("api_add_definition", "quick", 120, "x+y through the API equals the published column sum, for arbitrary digests incl. non-canonical columns", "all pairs of 32-byte digests"),
        ("api_sub_undoes_add", "quick", 120, "(x+y)-y == x, (x-y)+y == x, x-x == 0, -= agrees with -; no arithmetic panic", "all pairs of 32-byte digests"),
        ("api_assoc", "thorough", 1500, "associativity of + and - through the API", "all triples of 32-byte digests"),
        ("digest_roundtrip", "quick", 120, "from_digest(digest(s)) == s for parsed digests, sums and differences; little-endian columns", "all pairs of 32-byte digests"),
        ("from_hexdigest_wrong_len", "quick", 900, "strings of other lengths are rejected", "lengths 0 and 40, all ASCII contents", dict(unwind=3)),
    ]),
    level_text="Bounded model checking of the compiled setsum code: each law is one SAT query over ALL 32/64/96-byte inputs (2^256..2^768 states), so column values 0, 1, p-1, p and p..2^32-1 are all covered at once; loops are fixed-size (8 columns, 32/64 bytes) and fully unrolled with unwinding assertions on, so inside the algebra the claim is complete for the functions named; SHA3 is outside the solver.",
    level_note="Trusts Kani's MIR->goto translation, CBMC and CaDiCaL; the oracle is a u64 '%' reading of the published definition with the eight primes restated in the harness; SHA3-256 is not encoded symbolically (hash_to_state is checked for all 32-byte hashes; the hash itself is anchored on concrete items).",
    design_ref="DESIGN.md 2/C14",
    pre="pre_c14",
    native_only=[H("setsum/sha3_anchor_empty", "setsum", "verif_harness::sha3_anchor_empty::check"), H("setsum/sha3_anchor_abc", "setsum", "verif_harness::sha3_anchor_abc::check")],
    outside="collision resistance; SHA3-256 itself on symbolic input (anchored on concrete items only); non-ASCII strings passed to from_hexdigest",
    trusted=["Kani MIR->goto translation and CBMC's bit-precise semantics", "harness-side model: (a+b) mod p in u64 with the eight published primes"],
)

# ---------------------------------------------------------------- C17 (skipfree part)
GROUPS["skipfree"] = Group("skipfree", "incrate", package="skipfree")
VH = "verif_harness::"
_ops = {"seek_next": "seek(q) then next", "seek_prev": "seek(q) then prev", "last_prev": "seek_to_last then prev", "first_prev": "seek_to_first then prev"}
_B2 = "keys, values, probe and seek argument: all u8; MAX_HEIGHT=2; 2 inserts; heights and call sequence concrete"
def _s2(h, op, tier):
    return (f"s2_h{h}_{op}", tier, 420, f"2 inserts (heights {h[0]},{h[1]}) of distinct symbolic keys; contains(q) iff inserted; {_ops[op]}: iterator lands on the nearest key in that direction (sorted-array model)", _B2)
_sk = [_s2("11", "seek_next", "quick"), _s2("21", "seek_prev", "quick"), _s2("12", "last_prev", "quick"), _s2("22", "first_prev", "quick")]
_sk += [_s2(h, op, "thorough") for h, op in [("11","last_prev"),("11","first_prev"),("21","seek_next"),("21","last_prev"),("12","seek_next"),("22","seek_next"),("22","seek_prev"),("22","last_prev")]]
_sk += [
    ("s2_h11_first_prev_next", "quick", 900, "direction reversal at the front: seek_to_first, prev (off the front), next must reach the first key", _B2),
    ("s2_h22_last_next_prev", "thorough", 900, "direction reversal at the end: seek_to_last, next (stays at the end), prev must reach the last key", _B2),
    ("s2_h11_forward", "thorough", 900, "full forward iteration of 2 keys", _B2),
    ("s3_h111_member", "thorough", 900, "3 inserts; contains(q) iff inserted", "3 keys all u8, heights 1,1,1"),
    ("s3_h212_seek", "thorough", 900, "3 inserts; seek(q) lands on the first key >= q", "3 keys all u8, heights 2,1,2"),
    ("iter_after_drop_h11_seek_next", "quick", 420, "iterator used after the list is dropped at a symbolic point of seek(q),next: memory-safe (CBMC pointer checks) and contents intact; the iterator then frees the nodes", "2 keys, heights 1,1"),
    ("iter_after_drop_h21_seek_prev", "thorough", 420, "same for seek(q),prev", "2 keys, heights 2,1"),
    ("iter_after_drop_h12_last_prev", "thorough", 420, "same for seek_to_last,prev", "2 keys, heights 1,2"),
    ("iter_clone_after_drop", "quick", 420, "a cloned iterator survives the drop of the list and of the other clone", "2 keys, heights 1,2"),
]
PROPS["C17"] = dict(
    harnesses=hs("skipfree", VH, unwind=4, miri=True, mem=28, items=_sk),
    level_text="x", level_note="y",
)
GROUPS["listfree"] = Group("listfree", "incrate", package="listfree")
PROPS["C17"]["harnesses"] += hs("listfree", VH, unwind=4, miri=True, items=[
    ("seq1", "quick", 120, "1 prepend; iteration yields it once", "all u8 values"),
    ("seq3", "quick", 200, "3 prepends: newest first, each once; an iterator taken after a symbolic number of prepends is a stable snapshot; drop frees each node once", "all u8 values; all cut points"),
    ("seq4", "thorough", 400, "4 prepends, same assertions", "all u8 values; all cut points"),
    ("nested2", "quick", 200, "outer prepend with one nested interference (prepend or reader) at the yield point", "2 items, budget 1, all choices"),
    ("nested3", "quick", 300, "outer prepend with up to 2 nested interferences, depth<=2", "3 items, budget 2, all choices"),
    ("nested4", "thorough", 600, "outer prepend with up to 3 nested interferences, depth<=2", "4 items, budget 3, all choices"),
])

# ---------------------------------------------------------------- C11
GROUPS["hx_sst_cursors"] = Group("hx_sst_cursors", "ext", path=HX + "sst_cursors")
_DOM = "entries: key 0..3, timestamp 0..3, tombstone flag, all combinations; seek keys 0..4; call sequence: every K-call program over {seek_to_first, seek_to_last, seek, next, prev}"
_DOMS = "entries: key 0..3, timestamp 0..3, tombstone flag, all combinations; seek keys 0..4; call sequence fixed per harness, compared after every call"
_PN = {'snn': 'seek,next,next', 'lpp': 'seek_to_last,prev,prev', 'spn': 'seek,prev,next', 'fnp': 'seek_to_first,next,prev', 'snp': 'seek,next,prev', 'sps': 'seek,prev,seek'}
def _scr(prefix, what, keys, quick=(), cap=600, extra=""):
    return [(f"{prefix}_{k}", "quick" if k in quick else "thorough", cap, f"{what}; program {_PN[k]}", _DOMS + extra) for k in keys]
_c11 = [
    ("merge_2x2_k3", "quick", 400, "MergingCursor over 2 children of 2 entries equals one cursor over the sorted union after every call of a 3-call program", _DOM),
    ("merge_2x0_k3", "quick", 300, "MergingCursor with an empty second child", _DOM),
    ("merge_0x2_k3", "thorough", 300, "MergingCursor with an empty first child", _DOM),
    ("merge_3x1_k3", "thorough", 600, "MergingCursor over children of 3 and 1 entries", _DOM),
    ("merge_2x2_k4", "thorough", 1200, "MergingCursor 2x2, 4-call programs", _DOM),
    ("merge_2x2_k5", "thorough", 2400, "MergingCursor 2x2, 5-call programs", _DOM),
    ("merge_3x2_k3", "thorough", 1800, "MergingCursor over children of 3 and 2 entries", _DOM),
] + _scr("concat_2x2", "ConcatenatingCursor over 2 key-disjoint children of 2 entries equals their concatenation (tombstones included)", ["snn","lpp","spn","fnp","snp","sps"], quick=("snn","spn")) \
  + _scr("concat_0x2", "ConcatenatingCursor with an empty first child", ["snn","lpp","spn"], quick=("snn",)) \
  + _scr("concat_2x0", "ConcatenatingCursor with an empty second child", ["snn","lpp","spn"]) \
  + _scr("concat3_empty_middle", "ConcatenatingCursor over 3 children, the middle one empty", ["snn","lpp","spn"], quick=("spn",)) \
  + [("prune_3_s", "quick", 600, "PruningCursor at a symbolic read timestamp over 3 entries equals 'newest version <= t per key unless tombstone'; program seek", _DOMS + "; read timestamp 0..4"),
     ("prune_3_sn", "quick", 1200, "same; program seek,next", _DOMS + "; read timestamp 0..4"),
     ("prune_3_fnn", "thorough", 1200, "same; program seek_to_first,next,next", _DOMS + "; read timestamp 0..4"),
     ("prune_2_lp", "quick", 2400, "PruningCursor over 2 entries; program seek_to_last,prev (the backward path)", _DOMS + "; read timestamp 0..4", dict(unwind=3)),
     ("prune_2_sp", "thorough", 2400, "PruningCursor over 2 entries; program seek,prev", _DOMS + "; read timestamp 0..4", dict(unwind=3)),
    ] \
  + [
    (f"bounds_3_k3_{sk}{ek}", "quick" if (sk+ek) in ("ie", "ui") else "thorough", 900, f"BoundsCursor (start {sk}, end {ek}; u=unbounded i=included e=excluded) over 3 entries equals the restriction to the interval; every 3-call program", _DOM + "; bound keys 0..4 incl. empty and inverted ranges")
    for sk in "uie" for ek in "uie"
] + [
    ("bounds_4_k4_ie", "thorough", 2400, "BoundsCursor [s,e) over 4 entries, 4-call programs", _DOM),
    ("bounds_4_k4_ei", "thorough", 2400, "BoundsCursor (s,e] over 4 entries, 4-call programs", _DOM),
]
PROPS["C11"] = dict(
    harnesses=hs("hx_sst_cursors", "", unwind=6, items=_c11, stubs=["alloc::fmt::format -> empty String (error texts only)"],
                 assumes=["children sorted by (key asc, timestamp desc); entries distinct across children (merging); children key-disjoint and ordered (concatenating)"]),
    level_text="x", level_note="y",
)

# ---------------------------------------------------------------- C16
GROUPS["hx_tuple_key2"] = Group("hx_tuple_key2", "ext", path=HX + "tuple_key2")
GROUPS["hx_tuple_key"] = Group("hx_tuple_key", "ext", path=HX + "tuple_key")
_FW = "all pairs of values, full width"
_c16_v2 = [
    ("u64_order_rt", "quick", 600, "compact format: byte order of encodings == numeric order; decode returns the value and consumes all", _FW),
    ("i64_order_rt", "quick", 600, "compact format i64: order + round trip", _FW),
    ("u32_order_rt", "thorough", 600, "compact format u32", _FW), ("i32_order_rt", "thorough", 600, "compact format i32", _FW),
    ("u16_order_rt", "thorough", 600, "compact format u16", _FW), ("i16_order_rt", "thorough", 600, "compact format i16", _FW),
    ("u8_order_rt", "thorough", 600, "compact format u8", _FW), ("i8_order_rt", "thorough", 600, "compact format i8", _FW),
] + [
    (f"bytes_{a}_{b}", tier, cap, f"compact format byte strings of lengths {a},{b}: order == lexicographic order; round trip", "all contents (incl. 0x00, 0xff, prefixes)")
    for a, b, tier, cap in [(1,1,"thorough",600),(1,2,"quick",600),(2,1,"thorough",600),(2,2,"quick",900),(2,3,"thorough",900),(3,3,"thorough",1800),(1,3,"thorough",600)]
] + [
    ("tuple_unit_i32", "quick", 600, "(unit, i32) tuples compare element by element; decode", _FW),
    ("prefix_contiguity_u64", "quick", 900, "s<s' => enc(s) < enc(s.e) < enc(s') for u64 prefixes and an arbitrary further element", _FW),
    ("prefix_contiguity_bytes_1_2", "quick", 900, "same for byte-string prefixes of lengths 1,2", "all contents"),
    ("prefix_contiguity_bytes_2_2", "thorough", 1200, "same, lengths 2,2", "all contents"),
    ("decode_total_0", "thorough", 300, "every parser entry on the empty input: Ok/Err, no panic", "length 0"),
    ("decode_ints_9", "quick", 600, "u64/i64 decoders on one tag + full-width payload: no panic; accepted values are canonical", "all 9-byte inputs"),
]
_c16_v1 = [
    ("iter_partition_3", "quick", 900, "field-numbered format: the element iterator on arbitrary bytes never panics and partitions the key into consecutive elements", "all 3-byte keys (incl. keys ending in a continuation byte)"),
    ("iter_partition_1", "thorough", 600, "same", "all 1-byte keys"),
    ("iter_partition_5", "thorough", 1800, "same", "all 5-byte keys"),
    ("prefix_contiguity_u64", "quick", 600, "field-numbered format: s<s' => enc(s) < enc(s.e) < enc(s') for u64 prefixes extended by u64 / descending i64 / unit", _FW),
    ("str_fwd_0_1", "quick", 600, "strings (ASCII) of lengths 0,1 ascending: order + round trip", "all ASCII contents incl. NUL"),
    ("tuple_str1_2_i32", "quick", 900, "(string[1|2], i32) tuples: first element of different lengths", _FW),
    ("tuple_str2_2_i32", "thorough", 1200, "(string[2], i32) tuples", _FW),
    ("prefix_contiguity_str_1_2", "thorough", 1800, "prefix contiguity for string prefixes of lengths 1,2", "all ASCII contents"),
    ("prefix_contiguity_str_2_2", "thorough", 1800, "same, lengths 2,2", "all ASCII contents"),
    ("decode_total_0", "thorough", 300, "every parser entry on the empty key", "length 0"),
    ("u64_order_fwd", "quick", 900, "field-numbered format u64 ascending: encoded order == value order (order only, no decode)", _FW, dict(mem=28)),
    ("u64_order_rev", "quick", 900, "u64 descending: reversed order", _FW, dict(mem=28)),
    ("i64_order_fwd", "thorough", 900, "i64 ascending", _FW, dict(mem=28)),
    ("i64_order_rev", "quick", 900, "i64 descending", _FW, dict(mem=28)),
    ("i32_order_fwd", "thorough", 900, "i32 ascending", _FW, dict(mem=28)),
    ("u32_order_rev", "thorough", 900, "u32 descending", _FW, dict(mem=28)),
    ("str_rev_prefix_0_1", "quick", 600, "descending strings where one is a proper prefix of the other (isolates known finding tuple-key-desc-string-prefix)", "lengths 0,1", dict(expect="tuple-key-desc-string-prefix")),
]
PROPS["C16"] = dict(
    harnesses=hs("hx_tuple_key2", "", unwind=12, discover=True, items=_c16_v2) + hs("hx_tuple_key", "", unwind=4, discover=True, items=_c16_v1, stubs=_SERR),
    level_text="x", level_note="y",
)

# ---------------------------------------------------------------- C15
GROUPS["hx_prototk"] = Group("hx_prototk", "ext", path=HX + "prototk")
_SERR = ["alloc::fmt::format -> empty String", "handled::SError::{new,with_code,with_message,with_atom_field,with_string_field,with_debug_field} -> empty error (error texts only; is_err() preserved)"]
_c15 = [
    ("varint_roundtrip", "thorough", 2400, "v64: pack_sz == LEB128 length, pack writes exactly those bytes (the standard encoding), unpack inverts through both the short-buffer and the unrolled path", "all u64"),
    ("varint_fast_eq_slow", "thorough", 1800, "v64::unpack: unrolled fast path == slow path == reference decoder; truncation is an error", "all 11-byte buffers"),
    ("varint_total_0", "thorough", 200, "v64::unpack on the empty buffer", "length 0"),
    ("varint_total_1", "quick", 300, "v64::unpack on arbitrary bytes agrees with the reference decoder, no panic", "all 1-byte buffers"),
    ("varint_total_5", "thorough", 900, "same", "all 5-byte buffers"),
    ("varint_total_9", "quick", 900, "same (longest slow-path buffer)", "all 9-byte buffers"),
    ("varint_total_10", "quick", 900, "same (shortest fast-path buffer)", "all 10-byte buffers"),
    ("varint_total_12", "thorough", 1500, "same", "all 12-byte buffers"),
    ("zigzag_bijection", "quick", 1200, "zig-zag is the documented bijection (through sint64)", "all u64 payloads"),
    ("tag_roundtrip", "quick", 1500, "FieldNumber::new accepts exactly 1..2^29-1 minus 19000..19999; Tag bytes are varint(field<<3|wire); round trip; exact pack_sz", "all u32 field numbers x 4 wire types"),
    ("tag_total_6", "thorough", 1500, "Tag::unpack on arbitrary bytes: value or error; accepted tags decompose as field<<3|wire with valid parts", "all 6-byte buffers"),
] + [
    (f"field_{n}", tier, 1500, f"field type {n}: exact pack_sz, standard wire bytes, round trip", "all values")
    for n, tier in [("uint64","quick"),("uint32","thorough"),("int64","thorough"),("int32","quick"),("sint64","thorough"),("sint32","quick"),
                    ("fixed32","quick"),("fixed64","thorough"),("sfixed32","thorough"),("sfixed64","thorough"),("float_double","quick"),("bool","thorough"),
                    ("bytes_0","thorough"),("bytes_3","quick")]
] + [
]
PROPS["C15"] = dict(
    harnesses=hs("hx_prototk", "", unwind=3, discover=True, items=_c15, stubs=_SERR),
    level_text="x", level_note="y",
)

# ---------------------------------------------------------------- C18
GROUPS["sync42"] = Group("sync42", "incrate", package="sync42")
_c18 = [
    ("wait_list::verif_harness::full_blocks_s2", "quick", 900, "a link on a list whose slots are all handed out (head still linked, optionally a later slot freed) never returns: it reaches the condition-variable wait (Condvar::wait = path end)", "2 slots"),
    ("wait_list::verif_harness::full_blocks_s3", "thorough", 900, "same, 3 slots, any later slot freed", "3 slots"),
    ("wait_list::verif_harness::proto_s3_lllUUU", "quick", 900, "wait list, 3 slots: link x3 then unlink x3 in every order: one head = lowest linked index, head handed on, head<=tail<=head+slots, internal invariant never fires", "all unlink orders, all values"),
    ("wait_list::verif_harness::proto_s2_llUlUU", "quick", 900, "2 slots: link,link,unlink(any),link,unlink(any),unlink(any): slot reuse / full list", "all choices"),
    ("wait_list::verif_harness::proto_s2_llUlIU", "thorough", 900, "2 slots with an iteration from a symbolic guard", "all choices"),
    ("wait_list::verif_harness::proto_s3_llIUnl", "thorough", 900, "3 slots: iterate, unlink, notify_head, link", "all choices"),
    ("wait_list::verif_harness::proto_s2_lUlUlU", "thorough", 900, "2 slots: three link/unlink rounds (index wraps the slot vector)", "all choices"),
    ("wait_list::verif_harness::proto_s4_lllUlUl", "thorough", 1200, "4 slots, <=3 guards, 7 operations", "all choices"),
    ("work_coalescing_queue::verif_harness::queue_sequential_1", "quick", 600, "coalescing queue, one caller, core that refuses/limits/accepts batching: own output returned, core sees the input once, flag cleared", "all inputs, limits 0..2"),
    ("work_coalescing_queue::verif_harness::queue_sequential_3", "thorough", 900, "same, 3 successive callers: inputs reach the core in call order", "all inputs, limits 0..2"),
]
PROPS["C18"] = dict(
    harnesses=[H("sync42/" + n.split("::")[-1], "sync42", n + "::check", tier=ti, cap=c, desc=d, bound=b, unwind=4, miri=False, no_end=("full_blocks" in n),
                 stubs=["std::sync::Condvar::notify_one -> no-op (reaches futex; no second thread exists to wake)", "std::sync::Condvar::wait -> end of path (the thread blocks forever), in full_blocks_* only"],
                 assumes=["link is not called on a full list (the real link blocks there; single-threaded harness)"]) for n, ti, c, d, b in _c18],
    level_text="x", level_note="y",
)

# ---------------------------------------------------------------- C10 / C05 / C07 (in-crate sst, lsmtk)
GROUPS["sst"] = Group("sst", "incrate", package="sst")
GROUPS["lsmtk"] = Group("lsmtk", "incrate", package="lsmtk")
def hs2(group, modpath, items, **common):
    out = []
    for it in items:
        ident, tier, cap, desc, bound = it[:5]
        extra = dict(common)
        if len(it) > 5:
            extra.update(it[5])
        out.append(H(f"{group}/{ident}", group, f"{modpath}{ident}::check", tier=tier, cap=cap, desc=desc, bound=bound, **extra))
    return out
_KT = "all key bytes, all u64 timestamps; key lengths concrete"
_c10 = hs2("sst", "verif_harness::", unwind=3, stubs=_SERR, items=[
    ("keyref_order_2_2", "quick", 300, "KeyRef orders by key ascending then timestamp descending (everything else relies on it)", _KT),
    ("keyref_order_1_2", "thorough", 300, "same, keys of lengths 1 and 2", _KT),
    ("divide_1_1", "quick", 300, "divide_keys(l, r) for every l < r returns d with l <= d < r; no internal assertion fires", _KT),
    ("divide_2_2", "quick", 400, "same, key lengths 2,2", _KT),
    ("divide_1_2", "quick", 400, "same, key lengths 1,2 (left key a prefix of the right)", _KT),
    ("divide_0_1", "thorough", 300, "same, empty left key", _KT), ("divide_2_1", "thorough", 400, "same, lengths 2,1", _KT),
    ("divide_3_3", "thorough", 1500, "same, lengths 3,3", _KT), ("divide_3_2", "thorough", 1500, "same, lengths 3,2", _KT), ("divide_2_3", "thorough", 1500, "same, lengths 2,3", _KT),
    ("successor_2", "quick", 300, "minimal_successor_key is strictly above its argument, keeps it as prefix, and divide_keys accepts the pair (the seal path)", _KT),
    ("successor_0", "thorough", 300, "same, empty key", _KT),
    ("size_guards", "quick", 300, "check_table_size/check_key_len/check_value_len thresholds are exact", "all sizes; boundary lengths MAX and MAX+1"),
]) + hs2("sst", "block::verif_harness::", unwind=3, stubs=_SERR, items=[
    ("reject_unordered_1_1", "quick", 2400, "from an ARBITRARY builder state: the sort-order guard accepts exactly strictly increasing entries; a rejected put/del returns Err and leaves buffer, last key, restart state unchanged", _KT),
    ("reject_unordered_2_2", "thorough", 2400, "same, key lengths 2,2", _KT),
    ("reject_unordered_2_1", "thorough", 2400, "same, lengths 2,1", _KT),
    ("reject_unordered_0_0", "thorough", 2400, "same, empty keys", _KT),
    ("reject_oversize", "quick", 1500, "oversize key (put, del) and oversize value are rejected and write nothing", "lengths MAX+1"),
])
PROPS["C10"] = dict(harnesses=_c10, level_text="x", level_note="y")
_GC = "entries over 2 keys, timestamps 0..7, tombstone flags: all sorted sequences; N in 1..3, ttl threshold 0..8"
_c05 = hs2("sst", "gc::verif_harness::", unwind=3, stubs=_SERR, items=[
    ("determiners_3calls", "quick", 900, "Versions/Expires/Any/All determiners, three successive retain calls in the collector's calling pattern, against the policy reading (running version count, threshold test, or, and)", "all keys (2), tombstone runs 0..2, all u64 timestamps, N in 1..4"),
]) + [h for h in hs("hx_sst_cursors", "", unwind=6, mem=28, stubs=["alloc::fmt::format -> empty String"], items=[
    ("merge3_conserve_111", "quick", 1800, "a 3-way merge walked forward yields every input entry exactly once, strictly increasing, equal to the sorted union (multiset conservation)", "3 children x 1 entry, key 0..3, ts 0..3, tombstones"),
    ("merge3_backward_111", "quick", 1800, "the same merge walked backward yields the sorted union in reverse", "3 children x 1 entry"),
    ("merge_2x2_k3", "quick", 900, "2-way merge equals the sorted union after every call of every 3-call program (shared with C11)", "2x2 entries"),
])]
PROPS["C05"] = dict(harnesses=_c05, level_text="x", level_note="y")
_MT = "2 entries at scan-open time (keys 0..3, one may be a tombstone), read timestamp 2; seek keys and later-write keys 0..3; event script fixed per harness"
_c07 = hs2("lsmtk", "kvs::verif_harness::", unwind=3, stubs=_SERR, mem=28, miri=True, items=[
    ("min_key_after_release", "quick", 2400, "one entry; the raw memtable cursor is positioned on it, the store releases the memtable, key() and value() still read the entry: memory-safe (CBMC pointer checks)", "all keys and values (u8)"),
]) + hs("skipfree", VH, unwind=4, miri=True, mem=28, items=[
    ("iter_after_drop_h11_seek_next", "quick", 420, "skiplist iterator used after the list is dropped at a symbolic point of seek(q),next: memory-safe and contents intact; the iterator then frees the nodes", "2 keys, heights 1,1"),
    ("iter_clone_after_drop", "quick", 420, "a cloned iterator survives the drop of the list and of the other clone", "2 keys, heights 1,2"),
    ("iter_after_drop_h21_seek_prev", "thorough", 900, "iterator after drop, seek(q),prev, heights 2,1", "2 keys"),
    ("iter_after_drop_h12_last_prev", "thorough", 900, "iterator after drop, seek_to_last,prev, heights 1,2", "2 keys"),
])
PROPS["C07"] = dict(harnesses=_c07, level_text="x", level_note="y")

# ---------------------------------------------------------------- C19
GROUPS["hx_scrunch"] = Group("hx_scrunch", "ext", path=HX + "scrunch")
_c19 = [(f"bit_array_{n}", tier, 600, f"bit-array Builder::push x{n} -> seal -> BitArray::get(i) / load(i, w) for symbolic i and w in 0..16 equal the pushed bits (little-endian bit order, zero padding); out-of-range is None", f"all {n}-bit patterns") for n, tier in [(1,"thorough"),(7,"thorough"),(8,"quick"),(9,"quick"),(16,"quick"),(24,"thorough")]
] + [(f"push_word_{n}", tier, 600, "push_word of a full-range word at a fixed bit alignment is read back by load; a bit pushed afterwards lands right behind it; earlier bits untouched", f"alignment/width {n}, all words") for n, tier in [("p0_w8","quick"),("p3_w13","quick"),("p7_w17","thorough"),("p5_w3","thorough"),("p4_w0","thorough")]] + [
    ("reference_bv_1", "quick", 600, "ReferenceBitVector of 1 bit: construct -> serialise -> parse -> access/rank/rank0/access_rank/select/select0 for a symbolic query equal counting over the plain bit", "both patterns, all query positions incl. past the end"),
    ("reference_bv_rank_4", "quick", 900, "4 bits: access, rank, rank0, access_rank", "all patterns, all query positions"),
    ("reference_bv_rank_8", "thorough", 1800, "8 bits: access, rank, rank0, access_rank", "all patterns, all query positions", dict(mem=28)),
    ("reference_bv_rank_9", "thorough", 2400, "9 bits: access, rank, rank0, access_rank", "all patterns, all query positions", dict(mem=28)),
    ("reference_bv_select_3", "quick", 900, "3 bits: plus select/select0 (index just past the k-th set/clear bit)", "all patterns, all k"),
    ("reference_bv_select_5", "thorough", 1800, "5 bits: plus select/select0", "all patterns, all k", dict(mem=28)),
    ("partition_by_all", "quick", 300, "partition_by returns the first false index for every monotone predicate and never probes the last index", "first 0..7, length 0..8, every split"),
]
PROPS["C19"] = dict(harnesses=hs("hx_scrunch", "", unwind=12, discover=True, items=_c19, stubs=["alloc::fmt::format -> empty String"]), level_text="x", level_note="y")

# ---------------------------------------------------------------- claim texts
_TRUST = "Trusts Kani 0.68's MIR->goto translation, CBMC 6.11 (memcpy/memcmp/malloc models, --no-malloc-may-fail, 16 object bits) and CaDiCaL; mitigated, not removed, by native replay of every counterexample and by cover points (vacuity witnesses) in every harness. "
_BMC = "Bounded model checking of the compiled code of /repo (regenerated from the working tree on every run): each harness is one or more SAT queries over ALL values of its symbolic tape, with loop bounds enforced by unwinding assertions, so inside the stated shapes nothing is sampled. "
def _claim(pid, text, note, ref, outside):
    PROPS[pid].update(level_text=_BMC + text, level_note=_TRUST + note, design_ref=ref, outside=outside)
    PROPS[pid].setdefault("trusted", ["harness-side reference models (<=40 lines each, written from the statement, returning plain values)"])

_claim("C14", "For setsum every law is decided over all 32/64/96-byte inputs (2^256..2^768 states), so columns at 0, 1, p-1, p and p..2^32-1 are all covered; loops are fixed-size and fully unrolled, so inside the algebra the claim is complete for the functions named. SHA3 itself is outside the solver (uninterpreted in the multiset laws, anchored natively on concrete items).",
       "The oracle is a u64 '%' reading of the published definition with the eight primes restated in the harness; item hashing is an uninterpreted function in the multiset laws; the SHA3 anchor is an ordinary native run compared with hashlib.", "DESIGN.md 2/C14",
       "collision resistance; SHA3-256 on symbolic input; non-ASCII strings passed to from_hexdigest; hexdigest formatting only with 30 of 32 digest bytes fixed")
_claim("C16", "Both tuple-key formats: integers at full width (all pairs), strings/bytes at concrete lengths 0..3 (8 on one side in the thorough tier) with all contents, 2-element tuples, prefix contiguity, total decoders on all inputs of concrete lengths.",
       "Shapes (lengths, arity) are concrete per query and enumerated; contents are symbolic. Descending strings where one is a prefix of the other are a recorded known finding and are checked by their own harness.", "DESIGN.md 2/C16",
       "strings longer than 3 (8) bytes, non-ASCII strings in the field-numbered format, tuples of more than 2(+1) elements, the derive macros, Schema")
_claim("C11", "Merging, concatenating, pruning (partial), bounds cursors and their composition are instantiated at a fixed-capacity array cursor (same semantics as sst::reference::ReferenceCursor) and compared with a sorted-array definition after EVERY call of a cursor program; merging and bounds under every 3..5-call program, concatenating/pruning under fixed call sequences with symbolic seek keys.",
       "Entry domain key 0..3 x timestamp 0..3 x tombstone (realises every order type of <=5 entries); children sorted and mutually distinct (merging) / key-disjoint (concatenating) are assumptions; cursors under test are heap-allocated because CBMC produced non-reproducing counterexamples for stack-resident arrays.", "DESIGN.md 2/C11",
       "LazyCursor (hard-wired to files); error propagation from failing children; pruning cursor under prev and under programs longer than the listed ones (queries do not finish); tables of more than 5 entries")
_claim("C15", "varint pack/unpack (fast = slow = reference on all 11-byte buffers; all u64), zig-zag, tags (all u32 field numbers), every scalar field type (exact pack_sz, standard wire bytes, round trip, all values), bytes fields, the .",
       "Error-text constructors and format! are stubbed (is_err() preserved). The wire-format oracle is an independent 12-line LEB128 encoder/decoder in the harness.", "DESIGN.md 3/C15",
       "messages with more than 2 fields, containers (Vec/Option/nested), enums with payloads, Result, strings' UTF-8 validation, buffers longer than the stated lengths")
_claim("C17", "Sequential: all distinct u8 keys, 2 inserts under every height script of a MAX_HEIGHT=2 list (3 inserts for membership/seek), contains for a symbolic probe, one symbolic-position iterator step in each direction, iterator validity after drop; prepend-only list: all values, nested interference at the CAS yield point to depth 2 (reaches the retry loop).",
       "Kani treats atomics sequentially: schedules are covered only in the nested (stack-like) form for listfree; skipfree nested interference did not finish and is NOT claimed. Heights are scripted through a guarded hook replacing rand.", "DESIGN.md 3/C17",
       "true thread interleavings, weak-memory effects, skiplists of more than 3 keys or MAX_HEIGHT > 2, skipfree insert under interference")
_claim("C18", "Wait list built with 2..4 slots: scripted link/unlink/notify/iterate sequences with every choice of which guard unlinks; the queue's single-caller path with cores that refuse/limit/accept batching.",
       "Condvar::notify_one is a no-op stub (no second thread exists); link on a full list (which blocks by design) is not exercised.", "DESIGN.md 3/C18",
       "cross-caller batching, lost wake-ups, blocking paths (threads); the LRU cache (std HashMap does not finish under CBMC)")
_claim("C10", "Dividing keys and minimal successor for all key bytes/timestamps at key lengths <=3; KeyRef ordering; exact size thresholds; BlockBuilder rejection as ONE inductive step from an arbitrary builder state (so it covers every history leading to that state).",
       "Everything that packs or parses a block/SST is outside (does not finish under CBMC: measured).", "DESIGN.md 3/C10",
       "block/SST round trips, cursor programs over real blocks, metadata, bloom filter, restart intervals")
_claim("C05", "The four policy determiners against the policy reading (3 successive calls, all u64 timestamps); 3-way and 2-way merges conserve the multiset forward and backward. The real GarbageCollector loop does NOT finish under CBMC (gate G2 failed: out of memory at 2 entries) and is not claimed.",
       "The policy reading (40 lines) is written from GarbageCollectionPolicy's documentation and was cross-checked natively against the collector on 1.4M random cases.", "DESIGN.md 3/C05",
       "perform_compaction/perform_garbage_collection themselves, the multi-builder and output splitting, balance checks (file-bound); policy strings (nom parser)")
_claim("C07", "Memtable range-scan cursor (BoundsCursor<PruningCursor<skiplist iterator>>) as a stable, memory-safe snapshot: later writes with higher timestamps (symbolic key, put or delete) and the release of the memtable placed at fixed points of an iteration; skiplist iterators after the list is dropped. Memory safety = CBMC's pointer checks.",
       "Events are sequentialised (ordinary calls between cursor calls); skiplist heights scripted to 1 (MAX_HEIGHT 12 kept).", "DESIGN.md 3/C07",
       "SST-backed cursors, trash/retirement, file descriptors, true concurrency")
_claim("C19", "The bit-array substrate only: Builder/BitArray get/load/push_word, ReferenceBitVector access/rank/select/rank0/select0 after construct->serialise->parse, partition_by, for every bit pattern of the stated lengths.",
       "This is the substrate of the statement's second sentence, not the compressed index itself.", "DESIGN.md 3/C19",
       "rrr and sparse bit vectors (600 s timeouts at 8 bits), suffix array, psi, wavelet trees, documents")

# ---------------------------------------------------------------- C12 (log, decomposed at the byte image)
_LOGSTUBS = _SERR + ["sst::{system_error, unpack_log_header, unpack_key_value_entry_prototk} -> empty error (their texts come from to_string() of the inner error)", "crc32c::crc32c -> a cheap data-dependent checksum (the same function instantiates the template; CRC-32C itself cannot be executed by CBMC: CPU-feature dispatch)",
                     "sst::setsum::Setsum::{put,del} -> add a constant (SHA3 is outside the solver; only 'non-empty' is used by the writer)"]
_shapes = [  # name, what, tier of W/R
    ("whole_d40", "frame written whole, 40 bytes before a 1 MiB boundary", "quick"),
    ("split_d20", "20 bytes before the boundary: the smallest split (first frame of 1 byte), padding, second frame", "quick"),
    ("pad_d19", "19 bytes (= HEADER_MAX_SIZE) before the boundary: the largest padding", "thorough"),
    ("exact_d22", "frame ends exactly on the boundary", "thorough"),
    ("bound_d0", "first byte exactly on a boundary", "thorough"),
    ("pad_d5", "5 bytes before the boundary: padding, then the frame", "thorough"),
    ("split_d21", "21 bytes before the boundary: split with a 2-byte first frame", "thorough"),
]
_c12 = []
_PAY = "key and value bytes: all values < 0x80; timestamps fixed (5, 6); lengths concrete"
for n, what, t1 in _shapes:
    _c12 += [
        (f"w_{n}", t1, 1200, f"W: for ALL payloads the real writer's bytes equal the natively derived template ({what})", _PAY),
        (f"r_{n}", t1, 1800, f"R: for ALL payloads the real reader on the instantiated template yields exactly the appended entries, in order ({what})", _PAY),
    ]
_c12 += [
    ("w_split_d26", "thorough", 1800, "W only, for a larger split (26 bytes before the boundary, key 3 / value 4 bytes); its R half does not finish (1800 s) -- the image is read only by the torn-batch harness t_split_d26_at_boundary", _PAY),
    ("w_batch2_d32", "thorough", 1800, "W for ONE batch of two entries split across the boundary (the image the k_batch2 truncations are taken from)", _PAY),
    ("k_whole_d40_empty", "thorough", 1200, "R-cut at length 0: the empty log ends cleanly", _PAY),
    ("k_whole_d40_last_byte", "quick", 1800, "R-cut one byte before the end of the only frame: no entry, end or error", _PAY),
    ("k_split_d20_at_boundary", "thorough", 1800, "R-cut at the block boundary of a split batch: nothing of it is returned", _PAY),
    ("k_batch2_d32_at_boundary", "thorough", 2400, "R-cut at the block boundary after the first half of a split TWO-entry batch: the batch is returned whole or not at all", _PAY),
    ("k_batch2_d32_before_boundary", "thorough", 2400, "same, one byte before the boundary (inside the padding)", _PAY),
    ("k_batch2_d32_after_boundary", "thorough", 2400, "same, one byte after the boundary (inside the second header)", _PAY),
    ("k_batch2_d32_mid_padding", "thorough", 2400, "same, in the middle of the padding", _PAY),
    ("t_batch2_d32_at_boundary", "quick", 1800, "torn batch, first next() only: the two-entry batch cut at the block boundary (its first frame holds a whole entry) returns no entry; the W half for this image is w_batch2_d32 in the thorough tier", _PAY),
    ("t_batch2_d32_after_boundary", "thorough", 1800, "same, cut one byte into the second header", _PAY),
    ("t_batch2_d32_mid_padding", "thorough", 1800, "same, cut inside the padding", _PAY),
    ("t_split_d26_at_boundary", "thorough", 1800, "torn batch, first next() only: the larger single-entry split cut at the block boundary returns no entry", _PAY),
]
PROPS["C12"] = dict(
    harnesses=hs2("sst", "log::verif_harness::", unwind=3, stubs=_LOGSTUBS, mem=28, items=_c12),
    needs_templates=True,
    level_text="x", level_note="y",
)
_claim("C12", "The log write->read round trip is decomposed at the byte image: T (natively, every run) derives the image layout from the real writer; W (solver) shows the writer produces exactly that layout for ALL payloads; R (solver) shows the reader returns exactly the appended entries from it, and a prefix then end-or-error from every truncation. Shapes place ONE single-entry batch at distances 0, 5, 19, 20, 21, 22, 40 from a 1 MiB boundary (on the boundary, padding, largest padding, smallest split, exact fit, whole); truncations of these and of a split two-entry batch.",
       "W and R share the template instantiation, so their conjunction is the round trip; the checksum is a cheap stand-in function used identically on both sides (agreement on WHICH bytes are summed is still checked). Counterexamples are replayed natively against the real writer+reader with the real CRC.", "DESIGN.md 3/C12",
       "reading a SECOND entry or the end of the log after a successful entry (the queries do not finish: 30-40 min), so multi-batch logs are outside; symbolic timestamps; ConcurrentLogBuilder and the coalescing queues (threads), durability/fsync, log_to_builder/truncate_final_partial_frame (open a File), batches near MAX_BATCH_SIZE")
