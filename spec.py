"""What each property's check consists of: harness crates (groups) and harnesses.
See DESIGN.md; bounds are stated per harness and copied into the evidence."""
import os, sys
sys.path.insert(0, os.path.join(os.path.dirname(os.path.abspath(__file__)), "vlib"))
from runner import Group, H

HX = "/verif/hx/"
GROUPS = {
    "hx_setsum": Group("hx_setsum", "ext", path=HX + "setsum"),
}

def hs(group, mod, items=(), **common):
    """items: (ident, tier, cap, desc, bound[, extra dict])"""
    out = []
    for it in items:
        ident, tier, cap, desc, bound = it[:5]
        extra = dict(common)
        if len(it) > 5:
            extra.update(it[5])
        out.append(H(f"{group}/{ident}", group, f"{mod}{ident}::check", tier=tier, cap=cap,
                     desc=desc, bound=bound, **extra))
    return out

PROPS = {}

# ---------------------------------------------------------------- C14
ALL = "all values of the tape (no sampling)"
PROPS["C14"] = dict(
    harnesses=hs("hx_setsum", "", unwind=70, items=[
        ("add_state_def", "quick", 120, "add_state equals (a+b) mod p, canonical, commutative, identity", "all pairs of canonical states (2^512)"),
        ("add_state_assoc", "quick", 120, "add_state associative", "all triples of canonical states"),
        ("invert_canonical", "quick", 120, "a + invert(a) == 0; (b+a)+invert(a) == b", "all canonical a, b"),
        ("api_add_definition", "quick", 120, "x+y through the API equals the published column sum, for arbitrary digests incl. non-canonical columns", "all pairs of 32-byte digests"),
        ("api_sub_undoes_add", "quick", 120, "(x+y)-y == x, (x-y)+y == x, x-x == 0, -= agrees with -; no arithmetic panic", "all pairs of 32-byte digests"),
        ("api_assoc", "quick", 400, "associativity of + and - through the API", "all triples of 32-byte digests"),
        ("digest_roundtrip", "quick", 120, "from_digest(digest(s)) == s for parsed digests, sums and differences; little-endian columns", "all pairs of 32-byte digests"),
        ("hexdigest_roundtrip", "quick", 300, "hexdigest is 64 lower-case hex chars of digest(); from_hexdigest inverts it (formatting not stubbed)", "all 32-byte digests"),
        ("from_hexdigest_total", "quick", 300, "from_hexdigest on every 64-char ASCII string: no panic; lower-case hex accepted and denotes its bytes", "all 64-byte ASCII strings"),
        ("from_hexdigest_wrong_len", "quick", 120, "strings of other lengths are rejected", "lengths 0 and 40, all ASCII contents"),
    ]),
    level_text="Bounded model checking of the compiled setsum code: each law is one SAT query over ALL 32/64/96-byte inputs (2^256..2^768 states), so column values 0, 1, p-1, p and p..2^32-1 are all covered at once; loops are fixed-size (8 columns, 32/64 bytes) and fully unrolled with unwinding assertions on, so inside the algebra the claim is complete for the functions named; SHA3 is outside the solver.",
    level_note="Trusts Kani's MIR->goto translation, CBMC and CaDiCaL; the oracle is a u64 '%' reading of the published definition with the eight primes restated in the harness; SHA3-256 is not encoded symbolically (hash_to_state is checked for all 32-byte hashes; the hash itself is anchored on concrete items).",
    design_ref="DESIGN.md 2/C14",
    outside="collision resistance; SHA3-256 itself on symbolic input (anchored on concrete items only); non-ASCII strings passed to from_hexdigest",
    trusted=["Kani MIR->goto translation and CBMC's bit-precise semantics", "harness-side model: (a+b) mod p in u64 with the eight published primes"],
)

# ---------------------------------------------------------------- C17 (skipfree part)
GROUPS["skipfree"] = Group("skipfree", "incrate", package="skipfree")
VH = "verif_harness::"
_ops = {"seek_next": "seek(q) then next", "seek_prev": "seek(q) then prev", "last_prev": "seek_to_last then prev", "first_prev": "seek_to_first then prev"}
_B2 = "keys, values, probe and seek argument: all u8; MAX_HEIGHT=2; 2 inserts; heights and call sequence concrete"
def _s2(h, op, tier):
    return (f"s2_h{h}_{op}", tier, 420, f"2 inserts (heights {h[0]},{h[1]}) of distinct symbolic keys; contains(q) iff inserted; {_ops[op]}: iterator lands on the nearest key in that direction (sorted-array model)", _B2)
_sk = [_s2("11", "seek_next", "quick"), _s2("21", "seek_prev", "quick"), _s2("12", "last_prev", "quick"), _s2("22", "first_prev", "quick")]
_sk += [_s2(h, op, "thorough") for h, op in [("11","seek_prev"),("11","last_prev"),("11","first_prev"),("21","seek_next"),("21","last_prev"),("12","seek_next"),("12","seek_prev"),("22","seek_next"),("22","seek_prev"),("22","last_prev")]]
_sk += [
    ("s2_h11_forward", "thorough", 900, "full forward iteration of 2 keys", _B2),
    ("s2_h21_backward", "thorough", 900, "full backward iteration of 2 keys down to the head", _B2),
    ("s3_h111_member", "thorough", 900, "3 inserts; contains(q) iff inserted", "3 keys all u8, heights 1,1,1"),
    ("s3_h121_seek", "thorough", 900, "3 inserts; seek(q) lands on the first key >= q", "3 keys all u8, heights 1,2,1"),
    ("s3_h212_seek", "thorough", 900, "3 inserts; seek(q) lands on the first key >= q", "3 keys all u8, heights 2,1,2"),
    ("iter_after_drop_h11_seek_next", "quick", 420, "iterator used after the list is dropped at a symbolic point of seek(q),next: memory-safe (CBMC pointer checks) and contents intact; the iterator then frees the nodes", "2 keys, heights 1,1"),
    ("iter_after_drop_h21_seek_prev", "thorough", 420, "same for seek(q),prev", "2 keys, heights 2,1"),
    ("iter_after_drop_h12_last_prev", "thorough", 420, "same for seek_to_last,prev", "2 keys, heights 1,2"),
    ("iter_clone_after_drop", "quick", 420, "a cloned iterator survives the drop of the list and of the other clone", "2 keys, heights 1,2"),
    ("nested2_h11", "quick", 600, "insert with one nested interference (second insert or reader) at the yield point before the publishing CAS; reaches the CAS-failure re-search", "2 keys, heights 1,1, budget 1"),
    ("nested2_h21", "thorough", 900, "same, outer node of height 2", "2 keys, heights 2,1, budget 1"),
    ("nested2_h12", "thorough", 900, "same, nested node of height 2", "2 keys, heights 1,2, budget 1"),
    ("nested2_h22", "thorough", 1200, "same, both height 2, budget 2", "2 keys, heights 2,2, budget 2"),
    ("nested3_h111", "thorough", 1500, "3 keys, up to 2 nested interferences, depth<=2", "3 keys, heights 1,1,1, budget 2"),
]
PROPS["C17"] = dict(
    harnesses=hs("skipfree", VH, unwind=4, miri=True, items=_sk),
    level_text="x", level_note="y",
)
GROUPS["listfree"] = Group("listfree", "incrate", package="listfree")
PROPS["C17"]["harnesses"] += hs("listfree", VH, unwind=4, miri=True, items=[
    ("seq1", "quick", 120, "1 prepend; iteration yields it once", "all u8 values"),
    ("seq3", "quick", 200, "3 prepends: newest first, each once; an iterator taken after a symbolic number of prepends is a stable snapshot; drop frees each node once", "all u8 values; all cut points"),
    ("seq4", "thorough", 400, "4 prepends, same assertions", "all u8 values; all cut points"),
    ("nested2", "quick", 200, "outer prepend with one nested interference (prepend or reader) at the yield point", "2 items, budget 1, all choices"),
    ("nested3", "quick", 300, "outer prepend with up to 2 nested interferences, depth<=2", "3 items, budget 2, all choices"),
    ("nested4", "thorough", 600, "outer prepend with up to 3 nested interferences, depth<=2", "4 items, budget 3, all choices"),
])
