#!/usr/bin/env python3
"""Confirm a seeded mutation in a scratch worktree: usage seedcheck.py <PROP> <m1|m2> [src_dir]
 1. patch applies; existing tests of the touched crates still pass with it
 2. the demonstration fails with the patch and passes without
On success copies patch.diff, the demonstration and meta.json to /verif/seeded/<PROP>_<m>/ ."""
import json, os, re, shutil, subprocess, sys
pid, m = sys.argv[1], sys.argv[2]
src = sys.argv[3] if len(sys.argv) > 3 else f"/tmp/seed_out/{pid}/{m}"
wt = f"/tmp/seedv/{pid}_{m}"
env = dict(os.environ, CARGO_NET_OFFLINE="true", CARGO_TARGET_DIR="/tmp/seedv/target")
def sh(cmd, cwd=wt, ok=None):
    p = subprocess.run(cmd, shell=True, cwd=cwd, env=env, stdout=subprocess.PIPE, stderr=subprocess.STDOUT, text=True)
    return p.returncode, p.stdout
os.makedirs("/tmp/seedv", exist_ok=True)
sh(f"git -C /repo worktree remove --force {wt}", cwd="/")
rc, out = sh(f"git -C /repo worktree add -q {wt} HEAD", cwd="/")
assert rc == 0, out
ran = []
try:
    patch = os.path.join(src, "patch.diff")
    notes = open(os.path.join(src, "notes.md")).read()
    crates = sorted({l.split("/")[1] for l in open(patch) if l.startswith("+++ b/")})
    rc, out = sh(f"git apply {patch}")
    assert rc == 0, "patch does not apply: " + out
    for c in crates:
        rc, out = sh(f"cargo test -p {c} --offline -j 6 2>&1 | tail -40")
        res = re.findall(r"test result: (\w+)\. (\d+) passed; (\d+) failed", out)
        ok = bool(res) and all(r[0] == "ok" for r in res) and "error" not in out.split("test result")[0][-300:]
        ran.append(dict(cmd=f"cargo test -p {c} --offline (patch applied)", passed=ok, results=res))
        assert ok, f"existing tests of {c} do not pass with the mutation:\n" + out[-2000:]
    # install the demonstration
    demo_cmds = []
    mcp = re.findall(r"cp\s+\S*demo\S*\.rs\s+(\S+)", notes) + re.findall(r"[Cc]opy (?:it )?(?:in)?to `([^`]+\.rs)`", notes) + re.findall(r"`([a-z_0-9]+/tests/[a-z_0-9]+\.rs)`", notes)
    mcp = [re.sub(r"^/tmp/seed/C\d+/", "", x) for x in mcp]
    mcp = [x for x in mcp if "/tests/" in x]
    if os.path.exists(os.path.join(src, "demo.diff")):
        rc, out = sh(f"git apply {os.path.join(src, 'demo.diff')}")
        assert rc == 0, "demo.diff does not apply: " + out
        mt = re.findall(r"(cargo test [^\n`]*)", notes)
        demo_cmds = [x for x in mt if "demo" in x or "--lib" in x][:1] or mt[:1]
    else:
        assert mcp, "cannot find where to install demo.rs"
        dest = mcp[0]
        os.makedirs(os.path.dirname(os.path.join(wt, dest)), exist_ok=True)
        shutil.copyfile(os.path.join(src, "demo.rs"), os.path.join(wt, dest))
        crate = dest.split("/")[0]
        tname = os.path.basename(dest)[:-3]
        demo_cmds = [f"cargo test -p {crate} --offline -j 6 --test {tname}"]
    def run_demo():
        rc, out = sh(demo_cmds[0] + " 2>&1 | tail -60")
        res = re.findall(r"test result: (\w+)\. (\d+) passed; (\d+) failed", out)
        failed = any(r[0] != "ok" for r in res) or "panicked" in out or (not res)
        return failed, res, out
    f1, r1, o1 = run_demo()
    ran.append(dict(cmd=demo_cmds[0] + " (patch applied)", failed=f1, results=r1))
    assert f1 and r1, "demonstration does not fail with the mutation:\n" + o1[-1500:]
    rc, out = sh(f"git apply -R {patch}")
    assert rc == 0, out
    f2, r2, o2 = run_demo()
    ran.append(dict(cmd=demo_cmds[0] + " (patch reverted)", failed=f2, results=r2))
    assert (not f2) and r2, "demonstration does not pass without the mutation:\n" + o2[-1500:]
    dst = f"/verif/seeded/{pid}_{m}"
    os.makedirs(dst, exist_ok=True)
    for f in os.listdir(src):
        if f.endswith((".diff", ".rs", ".md", ".toml")):
            shutil.copyfile(os.path.join(src, f), os.path.join(dst, f))
    first = notes.split("\n## ")
    json.dump(dict(property=pid, mutation=m, source="independent sub-agent given only the property text and a scratch worktree",
                   files_touched=sorted({l[6:].strip() for l in open(patch) if l.startswith("+++ b/")}),
                   needs_to_manifest=(re.search(r"## What is needed[^\n]*\n(.*?)(\n## |\Z)", notes, re.S) or re.search(r"(?i)needed to manifest[^\n]*\n(.*?)(\n## |\Z)", notes, re.S) or [None, notes[:600]])[1].strip()[:1200],
                   confirmed_in_scratch_worktree=ran, detected_by=None), open(os.path.join(dst, "meta.json"), "w"), indent=1)
    print("CONFIRMED", pid, m, "->", dst)
finally:
    sh(f"git -C /repo worktree remove --force {wt}", cwd="/")
