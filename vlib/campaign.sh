#!/bin/sh
# usage: campaign.sh <tier> <jobs> ID...   -- run checks one after another, log to build/run_<ID>.log
tier=$1; shift; jobs=$1; shift
cd /verif
for id in "$@"; do
  ./check $id --tier $tier --jobs $jobs --update-hints > build/run_$id.log 2>&1
  echo "$id exit=$?" >> build/campaign.log
done
