#!/bin/sh
# Run each confirmed seeded change through the quick tier of the property it breaks
# (serialised: the change is applied to /repo itself).  usage: seedcampaign.sh [tier] seed:PROP ...
tier=${TIER:-quick}
cd /verif
for sp in "$@"; do
  seed=${sp%%:*}; prop=${sp##*:}
  python3 vlib/seedrun.py $seed $prop --tier $tier --jobs 8 >> build/seedcampaign.log 2>&1
done
