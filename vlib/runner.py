#!/usr/bin/env python3
"""Runner for the solver-based checks of rescrv/blue (see /verif/DESIGN.md §1.4).

For one property: build the harness crates from /repo's current working tree
with Kani, run each harness of the chosen tier as a bounded model-checking
query (CBMC + CaDiCaL), derive per-loop unwind bounds until no unwinding
assertion fails, replay every counterexample natively against the real code,
classify against known_findings.json, and write evidence/<ID>.json.

Exit codes: 0 property held on everything explored (known findings listed),
1 violation (a natively reproduced counterexample that is not a listed finding),
2 inconclusive (timeout, out of memory, unsatisfied cover, non-reproducing
counterexample, build failure) -- never reported as a pass.
"""
import concurrent.futures as cf
import hashlib
import json
import os
import random
import re
import resource
import shutil
import subprocess
import sys
import threading
import time

VERIF = os.path.dirname(os.path.dirname(os.path.abspath(__file__)))
REPO = os.environ.get("VERIF_REPO", "/repo")
BUILD = os.path.join(VERIF, "build")
HINTS = os.path.join(VERIF, "hints", "unwind.json")
KNOWN = os.path.join(VERIF, "known_findings.json")

ENV = dict(os.environ, CARGO_NET_OFFLINE="true", CARGO_TERM_COLOR="never")
ENV.pop("RUSTFLAGS", None)

print_lock = threading.Lock()


def say(*a):
    with print_lock:
        print(*a, flush=True)


# --------------------------------------------------------------------------
# specification objects


class Group:
    """A harness crate: external (path dependency on /repo crates, lives in
    /verif/hx/<dir>) or in-crate (a package of /repo whose lib.rs carries the
    guarded `mod verif_harness` hook pointing into /verif/hk)."""

    def __init__(self, key, kind, path=None, package=None, features=None, native_features=None):
        self.key, self.kind, self.path, self.package = key, kind, path, package
        self.features = features
        self.native_features = native_features


class H:
    def __init__(self, name, group, kani, tier="quick", cap=300, flags=(), unwind=3,
                 expect=None, miri=False, desc="", bound="", encodes=(), stubs=(), assumes=(),
                 mem=16, replay=None, native_only_release=False, discover=False, no_end=False):
        self.name = name            # unique id: "<group>/<harness ident>"
        self.group = group
        self.kani = kani            # fully qualified harness fn
        self.tier = tier
        self.cap = cap
        self.flags = list(flags)
        self.unwind = unwind
        self.expect = expect        # id of a known finding this harness isolates
        self.miri = miri
        self.desc, self.bound = desc, bound
        self.encodes, self.stubs, self.assumes = list(encodes), list(stubs), list(assumes)
        self.mem = mem
        self.no_end = no_end        # every path of the harness ends in a modelled block (assume(false))
        self.discover = discover    # bound discovery with --partial-loops (safe only where a
                                    # truncated loop cannot turn a later size into garbage)
        self.replay = replay or kani.split("::")[-2]


# --------------------------------------------------------------------------
# kani invocation and parsing

CHECK_RE = re.compile(
    r"^Check (\d+): (.+?)\n\t - Status: (\w+)\n\t - Description: \"(.*?)\"\n\t - Location: (.*?)$",
    re.M | re.S)


def _limits(mem_gb):
    def f():
        lim = int(mem_gb * (1 << 30))
        resource.setrlimit(resource.RLIMIT_AS, (lim, lim))
        os.setsid()
    return f


def group_cwd(g):
    return g.path if g.kind == "ext" else REPO


def kani_target(g):
    return os.path.join(BUILD, "kani_" + g.key)


GEN = os.path.join(BUILD, "gen")
_templates_done = False
_templates_lock = threading.Lock()


TEMPLATE_FAILS = []  # [(shape name, message)] of this run


def ensure_log_templates():
    """T of DESIGN.md 3/C12: derive the log byte-image templates natively from the real writer
    (from /repo's current tree) and store them where the sst harness module includes them.
    A shape whose derivation fails (the writer panics, or its output is not explained by
    layout + payload + checksums) gets placeholder constants so that everything else still
    compiles, and is reported through TEMPLATE_FAILS."""
    global _templates_done
    with _templates_lock:
        if _templates_done:
            return None
        os.makedirs(GEN, exist_ok=True)
        path = os.path.join(GEN, "log_templates.rs")
        env = dict(ENV, RUSTFLAGS="--cfg rescrv_blue_verif", VERIF_TEMPLATE="1")
        cmd = ["cargo", "test", "-p", "sst", "--lib", "--target-dir", os.path.join(BUILD, "native_sst"),
               "log::verif_harness::verif_template", "--", "--nocapture", "--test-threads", "1"]
        out, rc, to, dt = run_proc(cmd, REPO, 1800, 24, env=env)
        m = re.search(r"TEMPLATE-BEGIN\n(.*?)TEMPLATE-END", out, re.S)
        _templates_done = True
        if rc == 0 and m:
            lines = m.group(1).splitlines()
            body = "\n".join(l for l in lines if l.startswith("pub const") or l.startswith("pub fn img_") or l.startswith("// TEMPLATE-FAIL"))
            for l in lines:
                mm = re.match(r"// TEMPLATE-FAIL (\S+) (.*)", l)
                if mm:
                    TEMPLATE_FAILS.append((mm.group(1), mm.group(2)))
            new = "// generated on every run by vlib/runner.py from the real log writer\n" + body + "\n"
            if not os.path.exists(path) or open(path).read() != new:
                open(path, "w").write(new)
            return None
        names = re.findall(r'\("([A-Z0-9_]+)", \d+, \d+, \d+, \d\)', open(os.path.join(VERIF, "hk/sst/log.rs")).read())
        body = "".join(f"pub const T_{n}_LEN: usize = 1;\npub const T_{n}_LAYOUT: [u8; 1] = [0];\npub const T_{n}_KIND: [u8; 1] = [0];\npub const T_{n}_CRCS: [(usize, usize); 0] = [];\npub fn img_{n.lower()}(_p: &[u8], _crc: fn(&[u8]) -> u32) -> [u8; 1] {{ [0] }}\n" for n in names)
        open(path, "w").write("// FALLBACK: template derivation failed\n" + body)
        open(os.path.join(GEN, "log_templates.err"), "w").write(out[-6000:])
        return "log template derivation failed (see build/gen/log_templates.err)"


def prepare_group(g):
    if g.kind == "ext":
        # same dependency resolution as /repo
        shutil.copyfile(os.path.join(REPO, "Cargo.lock"), os.path.join(g.path, "Cargo.lock"))
    if g.key in ("sst", "lsmtk", "hx_sst_cursors"):
        return ensure_log_templates()
    return None


def kani_cmd(h, g, bounds, glob, playback=False, cap=None, codegen_only=False, partial=False):
    cmd = ["cargo", "kani"]
    if g.kind == "incrate":
        cmd += ["-p", g.package]
    if g.features:
        cmd += ["--features", g.features]
    cmd += ["--target-dir", kani_target(g), "-Z", "stubbing", "-Z", "unstable-options",
            "--harness", h.kani, "--exact", "--harness-timeout", f"{int(cap or h.cap)}s"]
    cmd += h.flags
    if codegen_only:
        return cmd + ["--only-codegen"]
    if playback:
        cmd += ["-Z", "concrete-playback", "--concrete-playback=print"]
    cmd += ["--cbmc-args", "--unwind", str(glob)]
    if partial:
        # bound-discovery rounds only: keep executing past a too-short loop so that EVERY loop
        # whose bound is too small shows its unwinding assertion in one run (verdicts of such a
        # run are ignored; the deciding run is always strict)
        cmd += ["--partial-loops"]
    if bounds:
        cmd += ["--unwindset", ",".join(f"{k}:{v}" for k, v in sorted(bounds.items()))]
    return cmd


def run_proc(cmd, cwd, timeout, mem_gb, env=None):
    t0 = time.time()
    p = subprocess.Popen(cmd, cwd=cwd, stdout=subprocess.PIPE, stderr=subprocess.STDOUT, text=True,
                         env=env or ENV, preexec_fn=_limits(mem_gb))
    try:
        out, _ = p.communicate(timeout=timeout)
        to = False
    except subprocess.TimeoutExpired:
        try:
            os.killpg(p.pid, 9)
        except ProcessLookupError:
            pass
        out, _ = p.communicate()
        to = True
    return out, p.returncode, to, time.time() - t0


def find_name_map(g, h):
    """pretty name -> [mangled] from Kani's pretty_name_map.json of this harness."""
    leaf = h.kani.split("::")[-2:]  # e.g. ['add_comm','check']
    root = kani_target(g)
    best, best_m = None, 0
    pat = re.compile(r"%d%s%d%s\.pretty_name_map\.json$" % (len(leaf[0]), leaf[0], len(leaf[1]), leaf[1]))
    for dp, dn, fn in os.walk(root):
        for f in fn:
            if pat.search(f):
                p = os.path.join(dp, f)
                m = os.path.getmtime(p)
                if m > best_m:
                    best, best_m = p, m
    if not best:
        return {}, None
    d = json.load(open(best))
    inv = {}
    for k, v in d.items():
        if v:
            inv.setdefault(v, []).append(k)
    return inv, best


def parse_kani(out):
    checks = []
    for m in CHECK_RE.finditer(out):
        checks.append(dict(n=int(m.group(1)), id=m.group(2).strip(), status=m.group(3),
                           desc=m.group(4), loc=m.group(5).strip()))
    verdict = None
    cbmc_died = bool(re.search(r"CBMC timed out|CBMC failed|CBMC crashed|Killed|SIGKILL|std::bad_alloc", out))
    status_error = len(re.findall(r"- Status: ERROR", out))
    if cbmc_died or status_error:
        verdict = None
    elif "VERIFICATION:- SUCCESSFUL" in out:
        verdict = "SUCCESSFUL"
    elif "VERIFICATION:- FAILED" in out:
        verdict = "FAILED"
    sym = [float(x) for x in re.findall(r"Runtime Symex: ([\d.e+-]+)s", out)]
    dec = [float(x) for x in re.findall(r"Runtime decision procedure: ([\d.e+-]+)s", out)]
    vt = re.findall(r"Verification Time: ([\d.]+)s", out)
    stubs = re.findall(r"- Stub: (.*)", out)
    vars_ = re.findall(r"(\d+) variables, (\d+) clauses", out)
    return dict(checks=checks, verdict=verdict, symex_s=sum(sym), solver_s=sum(dec),
                verif_s=float(vt[-1]) if vt else None,
                variables=int(vars_[-1][0]) if vars_ else None,
                clauses=int(vars_[-1][1]) if vars_ else None,
                timed_out=("timed out" in out.lower()), cbmc_died=cbmc_died,
                oom=bool(re.search(r"out of memory|Status: ERROR|std::bad_alloc|memory exhausted|ran out of memory", out)),
                compile_error=bool(re.search(r"^error(\[E\d+\])?:", out, re.M)) and verdict is None)


def is_unwind(c):
    return c["desc"].startswith("unwinding assertion loop") or ".unwind." in c["id"]


def is_recursion(c):
    return "recursion unwinding assertion" in c["desc"] or c["id"].endswith(".recursion")


def is_cover(c):
    return ".cover." in c["id"] or c["status"] in ("SATISFIED", "UNSATISFIABLE")


class Result:
    def __init__(self, h):
        self.h = h
        self.status = None       # PASS | FAIL | INCONCLUSIVE
        self.reason = ""
        self.rounds = 0
        self.queries = 0
        self.bounds = {}
        self.glob = h.unwind
        self.parsed = None
        self.failed = []
        self.covers = []
        self.wall = 0.0
        self.solver_s = 0.0
        self.symex_s = 0.0
        self.name_map_file = None
        self.functions = []
        self.replays = []
        self.log = ""


def to_mangled(bounds, inv):
    """bounds keyed by '<pretty function>.<loop index>' (or '<pretty function>' for a
    recursion bound) -> CBMC --unwindset keys (mangled names of the current build)."""
    out = {}
    for key, v in bounds.items():
        m = re.match(r"(.*)\.(\d+)$", key)
        fn, k = (m.group(1), m.group(2)) if m else (key, None)
        mang = inv.get(fn) or ([fn] if re.match(r"^[A-Za-z_][A-Za-z0-9_]*$", fn) else [])
        for mg in mang:
            out[f"{mg}.{k}" if k is not None else mg] = v
    return out


def grow(cur):
    # doubling: over-unrolling a loop with a concrete trip count is free, but a loop whose
    # trip count is symbolic pays for every extra iteration in the final query
    return max(cur + 3, cur * 2)


def run_harness(h, g, hints, logdir, max_rounds=40):
    r = Result(h)
    hint = hints.get(h.name, {})
    bounds = dict(hint.get("unwindset", {}))
    glob = max(h.unwind, hint.get("unwind", h.unwind))
    t0 = time.time()
    budget = h.cap * 4 + 600
    base = os.path.join(logdir, h.name.replace("/", "__"))
    # compile first: build errors surface here, and the name map of this build is needed
    out, rc, to, dt = run_proc(kani_cmd(h, g, {}, glob, codegen_only=True), group_cwd(g), 1800, 24)
    open(base + ".codegen.log", "w").write(out)
    inv, nmf = find_name_map(g, h)
    if rc != 0 or not inv:
        r.status, r.reason = "INCONCLUSIVE", "build failed (see %s.codegen.log)" % base
        r.wall = time.time() - t0
        r.bounds, r.glob = bounds, glob
        return r
    partial = False
    partial_rounds = 0
    for rnd in range(max_rounds):
        cmd = kani_cmd(h, g, to_mangled(bounds, inv), glob, partial=partial)
        out, rc, to, dt = run_proc(cmd, group_cwd(g), h.cap + 600, h.mem)
        r.queries += 1
        r.rounds = rnd + 1
        logp = base + f".r{rnd}.log"
        open(logp, "w").write(" ".join(cmd) + "\n" + out)
        r.log = logp
        p = parse_kani(out)
        r.parsed = p
        r.solver_s += p["solver_s"]
        r.symex_s += p["symex_s"]
        if p["verdict"] is None and re.search(r"goto-cc exited|read_bin_goto_object|goto-instrument exited", out) and not getattr(r, "rebuilt", False):
            # a cached goto binary is unreadable (e.g. an earlier run was killed while writing it):
            # drop this harness's build directory and build again
            r.rebuilt = True
            if nmf:
                shutil.rmtree(os.path.dirname(os.path.dirname(nmf)), ignore_errors=True)
            out2, rc2, to2, dt2 = run_proc(kani_cmd(h, g, {}, glob, codegen_only=True), group_cwd(g), 1800, 24)
            inv, nmf = find_name_map(g, h)
            continue
        if p["verdict"] is None:
            if partial:
                # the discovery mode itself failed: go on strictly
                partial = False
                partial_rounds = 99
                continue
            r.status = "INCONCLUSIVE"
            if p["compile_error"]:
                r.reason = "build failed (see %s)" % logp
            elif to or p["timed_out"]:
                r.reason = f"timeout after {dt:.0f}s (cap {h.cap}s)"
            elif p["oom"]:
                r.reason = "out of memory"
            else:
                r.reason = f"no verdict (rc={rc})"
            break
        uw = [c for c in p["checks"] if c["status"] == "FAILURE" and is_unwind(c)]
        rec = [c for c in p["checks"] if c["status"] == "FAILURE" and is_recursion(c) and not is_unwind(c)]
        if uw or rec:
            changed = False
            for c in uw:
                m = re.match(r"(.*)\.unwind\.(\d+)$", c["id"])
                if not m:
                    continue
                key = f"{m.group(1)}.{m.group(2)}"
                if to_mangled({key: 1}, inv):
                    bounds[key] = grow(bounds.get(key, glob))
                    changed = True
            for c in rec:
                fn = re.sub(r"\.recursion$", "", c["id"])
                if to_mangled({fn: 1}, inv):
                    bounds[fn] = bounds.get(fn, glob) + 2
                    changed = True
            if not changed:
                r.status = "INCONCLUSIVE"
                r.reason = "cannot map unwinding failure to a loop label: " + "; ".join(c["id"] for c in uw + rec)
                break
            if time.time() - t0 > budget:
                r.status = "INCONCLUSIVE"
                r.reason = "unwind derivation exceeded budget"
                break
            if partial:
                partial_rounds += 1
            partial = h.discover and partial_rounds < 10
            continue
        if partial:
            # no loop is too short any more under discovery: now the strict, deciding run
            partial = False
            partial_rounds = 99
            continue
        # converged: no unwinding assertion fails
        r.failed = [c for c in p["checks"] if c["status"] == "FAILURE"]
        r.covers = [c for c in p["checks"] if is_cover(c)]
        bad_cov = [c for c in r.covers if c["status"] != "SATISFIED" and not (h.no_end and c["desc"] == "END")]
        if r.failed:
            r.status = "FAIL"
        elif p["verdict"] == "FAILED" and not bad_cov:
            r.status = "INCONCLUSIVE"
            r.reason = "FAILED verdict without a failed check (see log)"
        elif bad_cov:
            r.status = "INCONCLUSIVE"
            r.reason = "vacuity: cover not satisfied: " + "; ".join(f"{c['desc']}={c['status']}" for c in bad_cov)
        elif not h.no_end and not any(c["desc"] == "END" for c in r.covers):
            r.status = "INCONCLUSIVE"
            r.reason = "vacuity: END cover missing"
        else:
            r.status = "PASS"
        break
    else:
        r.status = "INCONCLUSIVE"
        r.reason = "unwind derivation did not converge"
    r.bounds, r.glob = bounds, glob
    r.wall = time.time() - t0
    r.name_map_file = nmf
    r.inv = inv
    r.functions = repo_functions(inv)
    return r


REPO_CRATES = None


def repo_crates():
    global REPO_CRATES
    if REPO_CRATES is None:
        REPO_CRATES = set()
        for d in os.listdir(REPO):
            if os.path.exists(os.path.join(REPO, d, "Cargo.toml")):
                REPO_CRATES.add(d)
    return REPO_CRATES


def repo_functions(inv):
    out = set()
    for pretty in inv:
        s = pretty.lstrip("<&")
        m = re.match(r"(?:impl )?([a-z_0-9]+)::", s)
        if not m:
            # <T as Trait>::f  forms
            m2 = re.search(r"\b([a-z_0-9]+)::", s)
            if not m2:
                continue
            cr = m2.group(1)
        else:
            cr = m.group(1)
        if cr in repo_crates() and "::{closure" not in pretty and "verif_harness" not in pretty \
                and "::1::" not in pretty and not re.search(r"::\d+::", pretty):
            if re.search(r"::[a-z_][A-Za-z0-9_]*$", pretty) or pretty.endswith(">"):
                out.add(pretty)
    return sorted(out)


# --------------------------------------------------------------------------
# counterexample extraction and native replay

PLAY_RE = re.compile(
    r"Concrete playback unit test for `(.+?)`:\n```\n(.*?)\n```", re.S)


def extract_tapes(out):
    """-> list of (check description, tape bytes)"""
    res = []
    for m in PLAY_RE.finditer(out):
        body = m.group(2)
        d = re.search(r'Check for `.*?`: "(.*)"', body)
        desc = d.group(1) if d else ""
        vals = re.findall(r"^\s*vec!\[([0-9, ]*)\],?\s*$", body, re.M)
        tape = []
        for v in vals:
            tape += [int(x) for x in v.split(",") if x.strip()]
        res.append((desc, bytes(tape)))
    return res


def native_target(g, profile):
    return os.path.join(BUILD, "native_" + g.key)


def native_replay(h, g, tape, release=False, miri=False):
    """Run the same harness body natively on the tape.  -> dict(ok, panicked, msg, out)"""
    env = dict(ENV, VERIF_HARNESS=h.replay, VERIF_TAPE=tape.hex(), RUST_BACKTRACE="0")
    tool = ["cargo"]
    if miri:
        tool = ["cargo", "+nightly", "miri"]
        env["MIRIFLAGS"] = "-Zmiri-disable-isolation -Zmiri-ignore-leaks"
        env["RUSTFLAGS"] = "--cfg rescrv_blue_verif"
    cmd = tool + ["test"]
    if g.kind == "incrate":
        cmd += ["-p", g.package, "--lib"]
        if not miri:
            env["RUSTFLAGS"] = "--cfg rescrv_blue_verif"
    if g.native_features:
        cmd += ["--features", g.native_features]
    if release:
        cmd += ["--release"]
    cmd += ["--target-dir", native_target(g, release) + ("_miri" if miri else ""),
            "--", "verif_replay", "--nocapture", "--test-threads", "1"]
    pkg = g.package if g.kind == "incrate" else g.key
    infile = os.path.join(BUILD, "replay_%s.in" % pkg)
    open(infile, "w").write(h.replay + "\n" + tape.hex() + "\n")
    try:
        out, rc, to, dt = run_proc(cmd, group_cwd(g), 1800, 24, env=env)
    finally:
        try:
            os.remove(infile)
        except OSError:
            pass
    try:
        os.makedirs(os.path.join(BUILD, "logs", "replay"), exist_ok=True)
        open(os.path.join(BUILD, "logs", "replay", h.name.replace("/", "__") + ("_miri" if miri else "_rel" if release else "_dev") + ".log"), "w").write(" ".join(cmd) + "\nTAPE " + tape.hex() + "\n" + out)
    except OSError:
        pass
    began = "REPLAY-BEGIN" in out
    returned = "REPLAY-RETURNED" in out
    assume_failed = "REPLAY-ASSUME-FAILED" in out
    msg = ""
    m = re.search(r"panicked at ([^\n]*):\n(.*?)\n(?:note:|stack backtrace|test |\Z)", out, re.S)
    if m:
        msg = m.group(2).strip() + " @ " + m.group(1)
    ub = re.search(r"error: Undefined Behavior: (.*)", out)
    if ub:
        msg = "Undefined Behavior: " + ub.group(1)
    return dict(began=began, returned=returned, assume_failed=assume_failed,
                panicked=bool(m), ub=bool(ub), msg=msg, out=out, rc=rc, timeout=to)


def norm_desc(s):
    s = s.replace('\\"', '"')
    s = re.sub(r"\s+", " ", s).strip()
    if len(s) >= 2 and s[0] == '"' and s[-1] == '"':
        s = s[1:-1]
    return s


def desc_matches_native(kdesc, nmsg):
    """Does the native panic message correspond to the Kani check description?"""
    k = norm_desc(kdesc)
    n = norm_desc(nmsg)
    if not n:
        return False
    k0 = re.sub(r"^assertion failed: ", "", k)
    if k0 and k0 in n:
        return True
    # kani cannot format runtime messages; accept class matches
    classes = [("overflow", "overflow"), ("index out of bounds", "index out of bounds"),
               ("out of range", "out of range"), ("unwrap", "unwrap"), ("division by zero", "divide by zero"),
               ("divide by zero", "divide by zero"), ("placeholder message", "")]
    for a, b in classes:
        if a in k and b in n:
            return True
    return False


# --------------------------------------------------------------------------
# known findings


def load_known():
    if not os.path.exists(KNOWN):
        return []
    return json.load(open(KNOWN)).get("findings", [])


def match_known(known, pid, h, check):
    for f in known:
        if f.get("status") != "known":
            continue
        if f.get("property") != pid:
            continue
        if f.get("harness") and not re.fullmatch(f["harness"], h.name):
            continue
        m = f.get("match", {})
        if "description_re" in m and not re.search(m["description_re"], check["desc"]):
            continue
        if "location_re" in m and not re.search(m["location_re"], check["loc"]):
            continue
        if "id_re" in m and not re.search(m["id_re"], check["id"]):
            continue
        return f
    return None


# --------------------------------------------------------------------------
# per-property driver


def check_property(pid, prop, groups, tier, seed, jobs, update_hints=False, only=None):
    t0 = time.time()
    logdir = os.path.join(BUILD, "logs", pid)
    os.makedirs(logdir, exist_ok=True)
    os.makedirs(os.path.join(VERIF, "evidence"), exist_ok=True)
    hs = [h for h in prop["harnesses"] if tier == "thorough" or h.tier == "quick"]
    if only:
        hs = [h for h in hs if any(re.search(o, h.name) for o in only)]
    rnd = random.Random(seed)
    # longest first, ties shuffled by seed
    rnd.shuffle(hs)
    hs.sort(key=lambda h: -h.cap)
    hints = json.load(open(HINTS)) if os.path.exists(HINTS) else {}
    known = load_known()
    pre_problem = None
    if prop.get("pre"):
        import spec as _spec
        pre_problem = getattr(_spec, prop["pre"])()
    used_groups = {h.group for h in hs}
    prep_problems = [x for x in (prepare_group(groups[gk]) for gk in used_groups) if x]
    results = []
    # warm the build once per group so parallel jobs do not all wait on the cargo lock
    with cf.ThreadPoolExecutor(max_workers=jobs) as ex:
        futs = {ex.submit(run_harness, h, groups[h.group], hints, logdir): h for h in hs}
        for f in cf.as_completed(futs):
            r = f.result()
            results.append(r)
            p = r.parsed or {}
            say(f"[{pid}] {r.h.name}: {r.status} {r.reason} rounds={r.rounds} wall={r.wall:.0f}s "
                f"symex={r.symex_s:.0f}s solver={r.solver_s:.0f}s checks={len(p.get('checks', []))}")
    results.sort(key=lambda r: r.h.name)

    violations, known_hits, inconcl = [], [], []
    if isinstance(pre_problem, tuple) and pre_problem[0] == "violation":
        _, hh, msg = pre_problem
        c = dict(n=0, id="native." + hh.replay, status="FAILURE", desc="native anchored differential failed", loc="native run")
        rp = os.path.join(VERIF, "replays", pid)
        os.makedirs(rp, exist_ok=True)
        tp = os.path.join(rp, hh.name.replace("/", "__") + ".tape")
        open(tp, "w").write(json.dumps(dict(property=pid, harness=hh.name, replay=hh.replay, group=hh.group, tape="00", check=c,
                                            native_profile="dev", native_message=msg), indent=1) + "\n")
        prop["harnesses"].append(hh)  # so that --replay finds it
        violations.append((hh, c, tp, msg))
    elif pre_problem:
        inconcl.append(("pre-check", pre_problem))
    if prop.get("needs_templates"):
        for x in prep_problems:
            inconcl.append(("templates", x))
        # shapes the real writer could not be observed on: replay the base payload natively
        for shape, msg in TEMPLATE_FAILS:
            hh = next((h for h in prop["harnesses"] if h.name.endswith("/w_" + shape.lower())), None)
            if hh is None:
                continue
            tape = bytes(0x11 + i for i in range(16))
            rep = native_replay(hh, groups[hh.group], tape)
            c = dict(n=0, id="template." + shape, status="FAILURE", desc="the writer's output for shape %s cannot be observed: %s" % (shape, msg), loc="native template derivation")
            if rep["panicked"]:
                rp = os.path.join(VERIF, "replays", pid)
                os.makedirs(rp, exist_ok=True)
                tp = os.path.join(rp, hh.name.replace("/", "__") + ".tape")
                open(tp, "w").write(json.dumps(dict(property=pid, harness=hh.name, replay=hh.replay, group=hh.group, tape=tape.hex(), check=c,
                                                    native_profile="dev", native_message=rep["msg"]), indent=1) + "\n")
                violations.append((hh, c, tp, rep["msg"]))
            else:
                inconcl.append((hh.name, "template derivation failed for shape %s (%s) but the native round trip of the base payload passes" % (shape, msg)))
        failed_shapes = {x[0].lower() for x in TEMPLATE_FAILS}
        results = [r for r in results if not any(r.h.name.endswith("_" + fs) or ("_" + fs + "_") in r.h.name for fs in failed_shapes)]
    for r in results:
        h, g = r.h, groups[r.h.group]
        if r.status == "INCONCLUSIVE":
            inconcl.append((h.name, r.reason))
            continue
        if r.status != "FAIL":
            continue
        # all failed checks covered by known findings?  still replay once to stay honest.
        say(f"[{pid}] {h.name}: {len(r.failed)} failed check(s); extracting counterexamples")
        cmd = kani_cmd(h, g, to_mangled(r.bounds, r.inv), r.glob, playback=True, cap=h.cap * 4 + 300)
        # trace generation: kani-driver parses CBMC's JSON trace in memory
        out, rc, to, dt = run_proc(cmd, group_cwd(g), h.cap * 4 + 900, max(h.mem, 40))
        r.queries += 1
        open(os.path.join(logdir, h.name.replace("/", "__") + ".playback.log"), "w").write(out)
        tapes = extract_tapes(out)
        if not tapes:
            inconcl.append((h.name, "no counterexample tape could be extracted"))
            continue
        confirmed_any = False
        unconfirmed = []
        seen_tapes = {}
        for c in r.failed:
            cand = [t for d, t in tapes if norm_desc(d) == norm_desc(c["desc"])] or [t for d, t in tapes]
            verdict = None
            for tape in cand[:3]:
                key = tape.hex()
                if key not in seen_tapes:
                    memcheck = h.miri and ("dereference failure" in c["desc"] or "pointer" in c["id"]
                                           or "deallocated" in c["desc"] or "dead object" in c["desc"])
                    reps = []
                    if h.miri:
                        reps.append(("miri", native_replay(h, g, tape, miri=True)))
                    else:
                        reps.append(("dev", native_replay(h, g, tape)))
                        if not reps[0][1]["panicked"]:
                            reps.append(("release", native_replay(h, g, tape, release=True)))
                    seen_tapes[key] = reps
                reps = seen_tapes[key]
                for prof, rep in reps:
                    if rep["ub"] or (rep["panicked"] and desc_matches_native(c["desc"], rep["msg"])):
                        verdict = (tape, prof, rep["msg"])
                        break
                if verdict:
                    break
            if verdict:
                tape, prof, msg = verdict
                kf = match_known(known, pid, h, c)
                rp = os.path.join(VERIF, "replays", pid)
                os.makedirs(rp, exist_ok=True)
                tp = os.path.join(rp, h.name.replace("/", "__") + ".tape")
                open(tp, "w").write(json.dumps(dict(property=pid, harness=h.name, replay=h.replay,
                                                    group=h.group, tape=tape.hex(), check=c,
                                                    native_profile=prof, native_message=msg), indent=1) + "\n")
                r.replays.append(dict(check=c, tape=tape.hex(), profile=prof, msg=msg, known=bool(kf)))
                confirmed_any = True
                if kf:
                    known_hits.append((kf, h, c))
                else:
                    violations.append((h, c, tp, msg))
            else:
                unconfirmed.append(c)
        # failed checks whose counterexample reproduces under another failed check's
        # message are the same event seen twice; anything else is a tool/harness defect
        for c in unconfirmed:
            same_event = False
            for reps in seen_tapes.values():
                for prof, rep in reps:
                    if rep["panicked"] or rep["ub"]:
                        same_event = True
            if same_event and confirmed_any:
                r.replays.append(dict(check=c, note="subsumed: tape fails natively at an earlier assertion"))
            else:
                inconcl.append((h.name, f"counterexample for '{c['desc']}' at {c['loc']} did not reproduce natively"))

    # output lines
    printed = set()
    for kf, h, c in known_hits:
        key = kf.get("id")
        if key in printed:
            continue
        printed.add(key)
        say(f"KNOWN-FINDING: property={pid} {kf.get('id')}: {kf.get('what')} [harness {h.name}: {c['desc']} @ {c['loc']}]")
    for h, c, tp, msg in violations:
        say(f"VIOLATION property={pid} replay={tp}")
        say(f"  harness={h.name} check={c['id']} desc={c['desc']!r} loc={c['loc']} native={msg!r}")
    for n, why in inconcl:
        say(f"INCONCLUSIVE property={pid} harness={n}: {why}")

    # expected-fail harnesses that now pass
    for r in results:
        if r.h.expect and r.status == "PASS":
            say(f"NOTE property={pid} harness {r.h.name} isolates finding {r.h.expect} and now passes")

    if update_hints:
        hints_all = json.load(open(HINTS)) if os.path.exists(HINTS) else {}
        for r in results:
            if r.status in ("PASS", "FAIL"):
                hints_all[r.h.name] = dict(unwind=r.glob, unwindset=r.bounds)
        os.makedirs(os.path.dirname(HINTS), exist_ok=True)
        json.dump(hints_all, open(HINTS, "w"), indent=1, sort_keys=True)

    write_evidence(pid, prop, tier, seed, results, violations, known_hits, inconcl, time.time() - t0)
    if violations:
        return 1
    if inconcl:
        return 2
    return 0


def write_evidence(pid, prop, tier, seed, results, violations, known_hits, inconcl, wall):
    samples, funcs = [], set()
    total_checks = discharged = covers_sat = 0
    nontrivial = 0
    queries = 0
    solver_s = symex_s = 0.0
    per = []
    stubs, assumes = set(), set()
    for r in results:
        p = r.parsed or {}
        cs = p.get("checks", [])
        n_checks = len([c for c in cs if not is_cover(c)])
        n_ok = len([c for c in cs if c["status"] == "SUCCESS"])
        n_cov = len([c for c in r.covers if c["status"] == "SATISFIED"])
        total_checks += n_checks
        discharged += n_ok
        covers_sat += n_cov
        queries += r.queries
        solver_s += r.solver_s
        symex_s += r.symex_s
        funcs.update(r.functions)
        stubs.update(r.h.stubs)
        stubs.update(p.get("stubs", []) if isinstance(p.get("stubs"), list) else [])
        assumes.update(r.h.assumes)
        if r.status in ("PASS", "FAIL") and r.covers and all(c["status"] == "SATISFIED" or (r.h.no_end and c["desc"] == "END") for c in r.covers):
            nontrivial += 1
        per.append(dict(harness=r.h.name, kani=r.h.kani, status=r.status, reason=r.reason,
                        what=r.h.desc, bound=r.h.bound, tape_bytes=None,
                        unwind_default=r.glob, unwindset=r.bounds, rounds=r.rounds, queries=r.queries,
                        cbmc_checks=n_checks, cbmc_checks_success=n_ok,
                        covers=[dict(label=c["desc"], status=c["status"]) for c in r.covers],
                        failed=[dict(id=c["id"], desc=c["desc"], loc=c["loc"]) for c in r.failed],
                        replays=r.replays, wall_s=round(r.wall, 1), symex_s=round(r.symex_s, 1),
                        solver_s=round(r.solver_s, 1),
                        sat_variables=p.get("variables"), sat_clauses=p.get("clauses"),
                        kani_flags=r.h.flags, functions_encoded=len(r.functions)))
    for r in results[:40]:
        user = [c for c in (r.parsed or {}).get("checks", [])
                if ("verif" in c["loc"] or "/hx/" in c["loc"] or c["loc"].startswith("src/")) and not is_cover(c)]
        samples.append(dict(obligation=r.h.name, statement=r.h.desc, bound=r.h.bound, status=r.status,
                            harness_assertions=sorted({c["desc"] for c in user})[:12],
                            covers_reached=[c["desc"] for c in r.covers if c["status"] == "SATISFIED"][:12]))
    ev = dict(
        property_id=pid, tier=tier, seed=seed, level="model_checking",
        coverage=dict(
            evaluations=queries,
            distinct_nontrivial=nontrivial,
            rule=("one evaluation = one CBMC/CaDiCaL query over the goto program Kani compiled from /repo's "
                  "working tree for one harness (including unwind-derivation rounds and counterexample "
                  "extraction); a harness counts as non-trivial when the solver returned a verdict with no "
                  "unwinding assertion failing and every cover point of the harness (including the END "
                  "reachability cover) was SATISFIED; harnesses are distinct by name (distinct code under "
                  "test, shape or property)"),
            samples=samples,
            exhaustive=False,
            harnesses=per,
            harnesses_run=len(results),
            cbmc_properties_checked=total_checks,
            cbmc_properties_discharged=discharged,
            covers_satisfied=covers_sat,
            solver_time_s=round(solver_s, 1),
            symex_time_s=round(symex_s, 1),
            functions_encoded=sorted(funcs)[:400],
            functions_encoded_count=len(funcs),
            traces_validated_against_impl=sum(1 for r in results for x in r.replays if "tape" in x),
            known_findings_reported=sorted({kf.get("id") for kf, _, _ in known_hits}),
            inconclusive=[dict(harness=n, reason=w) for n, w in inconcl],
            engine="kani 0.68.0 / CBMC 6.11.0 / CaDiCaL; loop bounds checked by unwinding assertions",
            outside_the_bound=prop.get("outside", ""),
        ),
        assumptions=sorted(assumes) + ["stub: " + s for s in sorted(stubs)] + prop.get("trusted", []),
        wall_s=round(wall, 1),
        violations=len(violations),
    )
    json.dump(ev, open(os.path.join(VERIF, "evidence", pid + ".json"), "w"), indent=1)


def replay_file(path, groups, props):
    d = json.load(open(path))
    pid = d["property"]
    h = next(h for h in props[pid]["harnesses"] + props[pid].get("native_only", []) if h.name == d["harness"])
    g = groups[h.group]
    prepare_group(g)
    tape = bytes.fromhex(d["tape"])
    rep = native_replay(h, g, tape, miri=h.miri)
    print(rep["out"][-4000:])
    print("REPLAY:", "reproduced: " + rep["msg"] if (rep["panicked"] or rep["ub"]) else "did not fail")
    return 1 if (rep["panicked"] or rep["ub"]) else 0
