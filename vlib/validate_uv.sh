#!/bin/sh
cd /verif
./check C16 --tier thorough --jobs 6 --update-hints --only "hx_tuple_key/(iter_partition|u64_fwd|u64_rev|i64_rev|i32_fwd|u32_rev|str_fwd_1_2|str_rev_1_1|decode_total_2)" > build/uv_C16.log 2>&1
./check C14 --tier thorough --jobs 6 --update-hints --only "ms_union" --only "ms_order3" --only "api_assoc" > build/uv_C14.log 2>&1
./check C19 --tier thorough --jobs 6 --update-hints --only "reference_bv_rank_[89]" --only "reference_bv_select_5" > build/uv_C19.log 2>&1
./check C18 --tier thorough --jobs 6 --update-hints --only "full_blocks_s3" > build/uv_C18.log 2>&1
./check C11 --tier thorough --jobs 6 --update-hints --only "composed2" > build/uv_C11.log 2>&1
./check C05 --tier thorough --jobs 6 --update-hints --only "merge3_.*_211" > build/uv_C05.log 2>&1
echo done > build/uv_done
