#!/usr/bin/env python3
"""Run a property's check against a confirmed seeded change: apply the patch to /repo, run
./check, undo.  usage: seedrun.py <seed dir name> <PROP> [--tier T] [--only RE]... [--jobs N]
Records the outcome in /verif/seeded/<seed>/meta.json (detected_by)."""
import json, os, re, subprocess, sys, time
seed, pid = sys.argv[1], sys.argv[2]
extra = sys.argv[3:]
d = f"/verif/seeded/{seed}"
patch = os.path.join(d, "patch.diff")
st = subprocess.run("git -C /repo status --porcelain", shell=True, capture_output=True, text=True).stdout.strip()
assert not st, "/repo is not clean:\n" + st
t0 = time.time()
try:
    subprocess.run(f"git -C /repo apply {patch}", shell=True, check=True)
    p = subprocess.run(["./check", pid] + extra, cwd="/verif", stdout=subprocess.PIPE, stderr=subprocess.STDOUT, text=True)
finally:
    subprocess.run("git -C /repo checkout -- . && git -C /repo clean -fdq", shell=True, check=True)
out = p.stdout
open(os.path.join("/verif/build", f"seedrun_{seed}_{pid}.log"), "w").write(out)
viol = re.findall(r"VIOLATION property=(\S+) replay=(\S+)\n\s+harness=(\S+) check=.*? desc=(.*?) loc=", out)
inc = re.findall(r"INCONCLUSIVE property=\S+ harness=(\S+): (.*)", out)
res = dict(property=pid, args=extra, exit=p.returncode, wall_s=round(time.time() - t0),
           violations=[dict(harness=v[2], assertion=v[3]) for v in viol],
           inconclusive=[dict(harness=a, why=b[:160]) for a, b in inc])
m = json.load(open(os.path.join(d, "meta.json")))
runs = m.get("check_runs", [])
runs.append(res)
m["check_runs"] = runs
m["detected_by"] = sorted({f"{r['property']}:{v['harness']}" for r in runs for v in r["violations"]}) or None
json.dump(m, open(os.path.join(d, "meta.json"), "w"), indent=1)
print(seed, pid, "exit", p.returncode, "violations:", [v[2] for v in viol], "inconclusive:", [a for a, _ in inc][:6])
