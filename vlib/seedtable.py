#!/usr/bin/env python3
"""Print the seeded-change table for DESIGN.md from seeded/*/meta.json and patch.diff."""
import json, glob, os, re
rows = []
for d in sorted(glob.glob("/verif/seeded/*/")):
    m = json.load(open(d + "meta.json"))
    name = os.path.basename(d.rstrip("/"))
    notes = open(d + "notes.md").read() if os.path.exists(d + "notes.md") else ""
    title = notes.splitlines()[0].lstrip("# ").strip() if notes else ""
    title = re.sub(r"^C\d+\s*/?\s*m\d\s*[—:-]*\s*", "", title)[:110]
    files = ", ".join(m.get("files_touched", []))
    det = m.get("detected_by")
    runs = m.get("check_runs", [])
    inc = sorted({i["harness"] for r in runs for i in r.get("inconclusive", [])})
    if det:
        res = "**caught**: " + ", ".join(x.split(":", 1)[1] for x in det[:3]) + (" …" if len(det) > 3 else "")
    elif runs:
        res = "missed" + (" (inconclusive: " + ", ".join(inc[:2]) + ")" if inc else "")
    else:
        res = "not run"
    rows.append(f"| {name} | `{files}` | {title} | {res} |")
print("| seed | file | change | result of the property's check |")
print("|------|------|--------|-------------------------------|")
print("\n".join(rows))
