#!/bin/sh
# targeted runs: seedrun.py <seed> <prop> [args]
cd /verif
while pgrep -f "vlib/seedrun.py" > /dev/null; do sleep 15; done
run() { python3 vlib/seedrun.py "$@" >> build/seedcampaign.log 2>&1; }
run C17_m1 C17 --tier quick --jobs 8 --only skipfree/
run C17_m2 C17 --tier quick --jobs 8
run C18_m1 C18 --tier quick --jobs 8 --only full_blocks
run C18_m2 C18 --tier quick --jobs 8
run C11_m1 C11 --tier quick --jobs 8 --only merge
run C11_m2 C11 --tier quick --jobs 8 --only concat
run C07_m1 C07 --tier quick --jobs 8
run C07_m2 C07 --tier quick --jobs 8
run C07_m2 C11 --tier quick --jobs 8 --only prune
run C12_m1 C12 --tier quick --jobs 8
run C12_m2 C12 --tier quick --jobs 8
run C05_m2 C05 --tier quick --jobs 8 --only merge
run C05_m1 C05 --tier quick --jobs 8 --only determiners
run C16_m1 C16 --tier quick --jobs 8 --only hx_tuple_key/
