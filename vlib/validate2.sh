#!/bin/sh
cd /verif
./check C16 --tier thorough --jobs 8 --update-hints --only "hx_tuple_key/(u64_order|i64_order|i32_order|u32_order|u64_rt|i64_rt)" > build/v2_C16.log 2>&1
./check C12 --tier thorough --jobs 8 --update-hints --only "/[wr]_(pad_d19|exact_d22|two_d60|batch2_d32|pad_d5|bound_d0)$" --only "/k_(whole_d40_empty|two_d60_between|split_d20_at_boundary)$" > build/v2_C12.log 2>&1
echo done > build/v2_done
