#!/bin/sh
# usage: probe.sh <cwd> <log-prefix> <unwind> <harness>...   (runs each in background, logs to /verif/build/<harness>.log)
cwd=$1; shift; pkg=$1; shift; uw=$1; shift
export CARGO_NET_OFFLINE=true
cd $cwd
for h in "$@"; do
  n=$(echo $h | tr ':' '_')
  if [ "$pkg" = "-" ]; then P=""; T=/verif/build/kani_$(basename $cwd | sed 's/^/hx_/'); else P="-p $pkg"; T=/verif/build/kani_$pkg; fi
  ( /usr/bin/time -v timeout ${CAP:-900} cargo kani $P --target-dir $T -Z stubbing -Z unstable-options --harness $h --exact $KFLAGS --cbmc-args --unwind $uw $CBMCX > /verif/build/$n.log 2>&1 & )
done
