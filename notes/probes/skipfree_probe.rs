use super::*;

fn stub_height1<K: Eq + Ord + Default, V: Default, const H: usize>() -> usize { 1 }

fn stub_height_b<K: Eq + Ord + Default, V: Default, const H: usize>() -> usize {
    if kani::any() { 1 } else { 2 }
}

#[kani::proof]
#[kani::unwind(6)]
#[kani::stub(SkipList::random_height, stub_height1)]
fn h1_insert2_concrete() {
    let sl: SkipList<u8, u8, 2> = SkipList::default();
    sl.insert(5, 1);
    sl.insert(3, 1);
    assert!(sl.contains(&5) && sl.contains(&3));
    core::mem::forget(sl);
}

#[kani::proof]
#[kani::unwind(6)]
#[kani::stub(SkipList::random_height, stub_height1)]
fn h1_insert2_symbolic() {
    let sl: SkipList<u8, u8, 2> = SkipList::default();
    let (a, b): (u8, u8) = kani::any();
    kani::assume(a != b && a != 0 && b != 0);
    sl.insert(a, 1);
    sl.insert(b, 1);
    assert!(sl.contains(&a) && sl.contains(&b));
    core::mem::forget(sl);
}

#[kani::proof]
#[kani::unwind(6)]
#[kani::stub(SkipList::random_height, stub_height_b)]
fn hb_insert2_symbolic() {
    let sl: SkipList<u8, u8, 2> = SkipList::default();
    let (a, b): (u8, u8) = kani::any();
    kani::assume(a != b && a != 0 && b != 0);
    sl.insert(a, 1);
    sl.insert(b, 1);
    assert!(sl.contains(&a) && sl.contains(&b));
    core::mem::forget(sl);
}

#[kani::proof]
#[kani::unwind(6)]
#[kani::stub(SkipList::random_height, stub_height1)]
fn h1_iter_after_drop() {
    let sl: SkipList<u8, u8, 2> = SkipList::default();
    sl.insert(5, 1);
    let mut it = sl.iter();
    it.seek_to_first();
    drop(sl);
    assert!(it.is_valid());
    let k = *it.key();
    assert!(k == 5);
}
