use sst::{Cursor, KeyRef, SError};
use sst::merging_cursor::MergingCursor;

#[derive(Clone, Copy, Debug)]
struct E { k: [u8; 1], t: u64, tomb: bool, v: [u8; 1] }
#[derive(Clone)]
struct ArrCursor<const N: usize> { e: [E; N], n: usize, pos: isize }
impl<const N: usize> ArrCursor<N> { fn new(e: [E; N], n: usize) -> Self { Self { e, n, pos: -1 } } }
impl<const N: usize> Cursor for ArrCursor<N> {
    fn seek_to_first(&mut self) -> Result<(), SError> { self.pos = -1; Ok(()) }
    fn seek_to_last(&mut self) -> Result<(), SError> { self.pos = self.n as isize; Ok(()) }
    fn seek(&mut self, key: &[u8]) -> Result<(), SError> { let mut i = 0; while i < self.n && &self.e[i].k[..] < key { i += 1; } self.pos = i as isize; Ok(()) }
    fn prev(&mut self) -> Result<(), SError> { if self.pos >= 0 { self.pos -= 1; } Ok(()) }
    fn next(&mut self) -> Result<(), SError> { if self.pos < self.n as isize { self.pos += 1; } Ok(()) }
    fn key(&self) -> Option<KeyRef<'_>> { if self.pos >= 0 && (self.pos as usize) < self.n { let e = &self.e[self.pos as usize]; Some(KeyRef::new(&e.k, e.t)) } else { None } }
    fn value(&self) -> Option<&[u8]> { if self.pos >= 0 && (self.pos as usize) < self.n { let e = &self.e[self.pos as usize]; if e.tomb { None } else { Some(&e.v) } } else { None } }
}
fn lt(a: &E, b: &E) -> bool { (a.k[0], core::cmp::Reverse(a.t)) < (b.k[0], core::cmp::Reverse(b.t)) }
fn main() {
    let mut es = vec![];
    for k in 0..4u8 { for t in 0..4u64 { for tomb in [false,true] { es.push(E { k: [k], t, tomb, v: [k] }); } } }
    let mut bad = 0; let mut total = 0u64;
    for a0 in &es { for a1 in &es { if !lt(a0, a1) { continue; }
    for b0 in &es { for b1 in &es { if !lt(b0, b1) { continue; }
        let a = [*a0, *a1]; let b = [*b0, *b1];
        let mut all = vec![a[0], a[1], b[0], b[1]];
        all.sort_by(|x, y| if lt(x, y) { std::cmp::Ordering::Less } else if lt(y, x) { std::cmp::Ordering::Greater } else { std::cmp::Ordering::Equal });
        if all.windows(2).any(|w| !lt(&w[0], &w[1])) { continue; }
        let r = [all[0], all[1], all[2], all[3]];
        for prog in 0..(9u32 * 9 * 9) {
            let mut spec = ArrCursor::<4>::new(r, 4);
            let mut m = MergingCursor::new(vec![ArrCursor::<2>::new(a, 2), ArrCursor::<2>::new(b, 2)]).unwrap();
            let mut p = prog; let mut trace = vec![];
            for _ in 0..3 {
                let op = p % 9; p /= 9;
                match op {
                    0 => { m.seek_to_first().unwrap(); spec.seek_to_first().unwrap(); }
                    1 => { m.seek_to_last().unwrap(); spec.seek_to_last().unwrap(); }
                    2 | 5 | 6 | 7 | 8 => { let sk = if op == 2 {0} else {op as u8 - 4}; m.seek(&[sk]).unwrap(); spec.seek(&[sk]).unwrap(); }
                    3 => { m.next().unwrap(); spec.next().unwrap(); }
                    _ => { m.prev().unwrap(); spec.prev().unwrap(); }
                }
                trace.push(op);
                total += 1;
                let x = m.key().map(|k| (k.key[0], k.timestamp, m.value().is_none())); let y = spec.key().map(|k| (k.key[0], k.timestamp, spec.value().is_none()));
                if x != y { bad += 1; if bad < 6 { println!("MISMATCH a={:?} b={:?} trace={:?} got={:?} want={:?}", a.map(|e| (e.k[0], e.t)), b.map(|e| (e.k[0], e.t)), trace, x, y); } break; }
            }
        }
    }}}}
    println!("total steps {} bad {}", total, bad);
}
