use super::*;
use std::io::{Read, Seek, SeekFrom};

fn stub_format(_: core::fmt::Arguments<'_>) -> String { String::new() }
fn stub_setsum_put(s: &mut crate::setsum::Setsum, _k: &[u8], _t: u64, _v: &[u8]) { *s += crate::setsum::Setsum::from_digest([1u8; 32]); }
fn stub_setsum_del(s: &mut crate::setsum::Setsum, _k: &[u8], _t: u64) { *s += crate::setsum::Setsum::from_digest([2u8; 32]); }
fn stub_crc(buf: &[u8]) -> u32 {
    let mut acc: u32 = buf.len() as u32;
    let mut i = 0;
    while i < buf.len() { acc = acc.wrapping_mul(31).wrapping_add(buf[i] as u32); i += 1; }
    acc
}

struct OffsetReader { data: Vec<u8>, base: u64, pos: u64 }
impl Read for OffsetReader {
    fn read(&mut self, buf: &mut [u8]) -> std::io::Result<usize> {
        let off = (self.pos - self.base) as usize;
        let avail = self.data.len() - off;
        let n = if buf.len() < avail { buf.len() } else { avail };
        buf[..n].copy_from_slice(&self.data[off..off + n]);
        self.pos += n as u64;
        Ok(n)
    }
}
impl Seek for OffsetReader {
    fn seek(&mut self, from: SeekFrom) -> std::io::Result<u64> {
        match from {
            SeekFrom::Start(x) => { self.pos = x; }
            SeekFrom::Current(d) => { self.pos = (self.pos as i64 + d) as u64; }
            SeekFrom::End(_) => { self.pos = self.base + self.data.len() as u64; }
        }
        Ok(self.pos)
    }
}

// writer only
#[kani::proof]
#[kani::unwind(16)]
#[kani::stub(alloc::fmt::format, stub_format)]
#[kani::stub(crc32c::crc32c, stub_crc)]
#[kani::stub(crate::setsum::Setsum::put, stub_setsum_put)]
#[kani::stub(crate::setsum::Setsum::del, stub_setsum_del)]
fn log_writer_only_gap30() {
    let mut out: Vec<u8> = Vec::new();
    let opts = LogOptions { write_buffer: 128, read_buffer: 16, rollover_size: 1 << 30 };
    let base = BLOCK_SIZE - 30;
    let key: [u8; 2] = kani::any();
    let val: [u8; 3] = kani::any();
    {
        let mut lb = LogBuilder::from_write(opts.clone(), &mut out).unwrap();
        lb.bytes_written = base;
        lb.put(&key, 5, &val).unwrap();
        lb.flush().unwrap();
        assert!(lb.bytes_written > BLOCK_SIZE);
        core::mem::forget(lb);
    }
    assert!(out.len() > 30);
    core::mem::forget(out);
}

// reader only, over a concrete frame layout with symbolic payload bytes
#[kani::proof]
#[kani::unwind(16)]
#[kani::stub(alloc::fmt::format, stub_format)]
#[kani::stub(crc32c::crc32c, stub_crc)]
fn log_reader_only_whole() {
    // payload: KeyValueEntry::Put { shared 0, key_frag [k], ts 5, value [v] }
    let k: u8 = kani::any(); let v: u8 = kani::any();
    let payload = [66u8, 9, 8, 0, 18, 1, k, 24, 5, 34, 1, v];
    let crc = stub_crc(&payload).to_le_bytes();
    let mut data = vec![9u8, 80, 12, 88, 1, 101, crc[0], crc[1], crc[2], crc[3]];
    data.extend_from_slice(&payload);
    let opts = LogOptions { write_buffer: 128, read_buffer: 16, rollover_size: 1 << 30 };
    let rd = OffsetReader { data, base: 0, pos: 0 };
    let mut it = LogIterator::from_reader(opts, rd).unwrap();
    match it.next() {
        Ok(Some(kvr)) => { assert!(kvr.key.len() == 1 && kvr.key[0] == k && kvr.timestamp == 5); }
        _ => { assert!(false); }
    }
    core::mem::forget(it);
}
