use super::*;
use std::io::{Read, Seek, SeekFrom};

fn stub_format(_: core::fmt::Arguments<'_>) -> String { String::new() }
fn stub_setsum_put(_s: &mut crate::setsum::Setsum, _k: &[u8], _t: u64, _v: &[u8]) {}
fn stub_setsum_del(_s: &mut crate::setsum::Setsum, _k: &[u8], _t: u64) {}
fn stub_crc(buf: &[u8]) -> u32 {
    let mut acc: u32 = buf.len() as u32;
    let mut i = 0;
    while i < buf.len() { acc = acc.wrapping_mul(31).wrapping_add(buf[i] as u32); i += 1; }
    acc
}

// A reader that presents `data` as the bytes of a file starting at absolute offset `base`.
struct OffsetReader { data: Vec<u8>, base: u64, pos: u64 }
impl Read for OffsetReader {
    fn read(&mut self, buf: &mut [u8]) -> std::io::Result<usize> {
        let off = (self.pos - self.base) as usize;
        let avail = self.data.len() - off;
        let n = if buf.len() < avail { buf.len() } else { avail };
        let mut i = 0;
        while i < n { buf[i] = self.data[off + i]; i += 1; }
        self.pos += n as u64;
        Ok(n)
    }
}
impl Seek for OffsetReader {
    fn seek(&mut self, from: SeekFrom) -> std::io::Result<u64> {
        match from {
            SeekFrom::Start(x) => { self.pos = x; }
            SeekFrom::Current(d) => { self.pos = (self.pos as i64 + d) as u64; }
            SeekFrom::End(_) => { self.pos = self.base + self.data.len() as u64; }
        }
        Ok(self.pos)
    }
}

fn roundtrip_at(gap: u64) {
    let mut out: Vec<u8> = Vec::new();
    let opts = LogOptions { write_buffer: 128, read_buffer: 16, rollover_size: 1 << 30 };
    let base = BLOCK_SIZE - gap;
    let key: [u8; 2] = kani::any();
    let val: [u8; 3] = kani::any();
    let ts: u8 = kani::any();
    kani::assume(ts < 128);
    {
        let mut lb = LogBuilder::from_write(opts.clone(), &mut out).unwrap();
        lb.bytes_written = base;
        lb.put(&key, ts as u64, &val).unwrap();
        lb.flush().unwrap();
        core::mem::forget(lb);
    }
    let rd = OffsetReader { data: out, base, pos: base };
    let mut it = LogIterator::from_reader(opts, rd).unwrap();
    match it.next() {
        Ok(Some(kvr)) => {
            assert!(kvr.key.len() == 2 && kvr.key[0] == key[0] && kvr.key[1] == key[1]);
            assert!(kvr.timestamp == ts as u64);
            let v = kvr.value.unwrap();
            assert!(v.len() == 3 && v[0] == val[0] && v[2] == val[2]);
        }
        _ => { assert!(false); }
    }
    match it.next() { Ok(None) => {}, _ => { assert!(false); } }
    core::mem::forget(it);
}

#[kani::proof]
#[kani::unwind(40)]
#[kani::stub(alloc::fmt::format, stub_format)]
#[kani::stub(crc32c::crc32c, stub_crc)]
#[kani::stub(crate::setsum::Setsum::put, stub_setsum_put)]
#[kani::stub(crate::setsum::Setsum::del, stub_setsum_del)]
fn log_roundtrip_gap_30() { roundtrip_at(30); }

#[kani::proof]
#[kani::unwind(40)]
#[kani::stub(alloc::fmt::format, stub_format)]
#[kani::stub(crc32c::crc32c, stub_crc)]
#[kani::stub(crate::setsum::Setsum::put, stub_setsum_put)]
#[kani::stub(crate::setsum::Setsum::del, stub_setsum_del)]
fn log_roundtrip_gap_12() { roundtrip_at(12); }

#[kani::proof]
#[kani::unwind(40)]
#[kani::stub(alloc::fmt::format, stub_format)]
#[kani::stub(crc32c::crc32c, stub_crc)]
#[kani::stub(crate::setsum::Setsum::put, stub_setsum_put)]
#[kani::stub(crate::setsum::Setsum::del, stub_setsum_del)]
fn log_roundtrip_gap_500() { roundtrip_at(500); }
