use super::*;

#[kani::proof]
fn versions_determiner_3calls() {
    let tape: [u8; 8] = kani::any();
    let n = 1 + (tape[0] % 3) as u64;
    let mut d = VersionsDeterminer::new(NonZeroU64::new(n).unwrap());
    // three successive versions: keys k0 <= k1 <= k2 (1 byte), tombstone-run flags
    let k = [[tape[1] & 1], [tape[2] & 1], [tape[3] & 1]];
    let tomb = [tape[4] & 1 == 1, tape[5] & 1 == 1, tape[6] & 1 == 1];
    if !(k[0][0] <= k[1][0] && k[1][0] <= k[2][0]) { return; }
    let ts: [u64; 1] = [9];
    let mut count: u64 = 0;
    let mut cur: Option<u8> = None;
    let mut i = 0;
    while i < 3 {
        let got = d.retain(&k[i], if tomb[i] { &ts[..] } else { &ts[..0] }, 5);
        // independent reading: a value counts 1, a value under tombstones counts 2; reset per key
        if cur != Some(k[i][0]) { cur = Some(k[i][0]); count = 0; }
        count += if tomb[i] { 2 } else { 1 };
        let want = count <= n || (count == 1);
        assert!(got == want);
        i += 1;
    }
}
