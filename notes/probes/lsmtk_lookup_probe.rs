use super::*;
use sst::SstMetadata;
use handled::SExpr;

fn st_new(_phase: &str) -> SError { SError::from(SExpr::List(Vec::new())) }
fn st_code(s: SError, _c: &str) -> SError { s }
fn st_msg(s: SError, _c: &str) -> SError { s }
fn st_atom<T: ToString>(s: SError, _n: &str, v: T) -> SError { core::mem::forget(v); s }
fn st_str(s: SError, _n: &str, _v: &str) -> SError { s }
fn st_dbg<T: core::fmt::Debug>(s: SError, _n: &str, v: T) -> SError { core::mem::forget(v); s }
fn stub_format(_: core::fmt::Arguments<'_>) -> String { String::new() }

fn opts() -> LsmtkOptions {
    LsmtkOptions {
        mani: Default::default(), log: Default::default(), sst: Default::default(), path: String::new(),
        max_open_files: 1 << 19, max_compaction_bytes: 1 << 29, max_compaction_files: 1 << 6,
        l0_mandatory_compaction_threshold_files: 4, l0_mandatory_compaction_threshold_bytes: 1 << 26,
        l0_write_stall_threshold_files: 12, l0_write_stall_threshold_bytes: 1 << 28, memtable_size_bytes: 1 << 26,
        gc_policy: sst::gc::GarbageCollectionPolicy::Versions { number: std::num::NonZeroU64::new(1).unwrap() },
        sst_cache_bytes: 1 << 26,
    }
}
fn md(id: u8, lo: u8, hi: u8, tlo: u8, thi: u8) -> Arc<SstMetadata> {
    let mut setsum = [0u8; 32];
    setsum[0] = id;
    Arc::new(SstMetadata { setsum, first_key: vec![lo], last_key: vec![hi], smallest_timestamp: tlo as u64, biggest_timestamp: thi as u64, file_size: 1 })
}
static mut GH_HAS: [bool; 5] = [false; 5];
static mut GH_TS: [u64; 5] = [0; 5];

fn stub_load_from_sst<'a: 'b, 'b>(_v: &Version, _fm: &FileManager, _sc: &LeastRecentlyUsedCache<Setsum, CachedSst>, md: &SstMetadata, _key: &[u8], timestamp: u64, is_tombstone: &mut bool) -> Result<Option<Vec<u8>>, SError> {
    let id = md.setsum[0] as usize;
    unsafe {
        *is_tombstone = false;
        if GH_HAS[id] && GH_TS[id] <= timestamp { Ok(Some(vec![GH_TS[id] as u8])) } else { Ok(None) }
    }
}

#[kani::proof]
#[kani::stub(alloc::fmt::format, stub_format)]
#[kani::stub(Version::load_from_sst, stub_load_from_sst)]
#[kani::stub(handled::SError::new, st_new)]
#[kani::stub(handled::SError::with_code, st_code)]
#[kani::stub(handled::SError::with_message, st_msg)]
#[kani::stub(handled::SError::with_atom_field, st_atom)]
#[kani::stub(handled::SError::with_string_field, st_str)]
#[kani::stub(handled::SError::with_debug_field, st_dbg)]
fn lookup_order_l0x2_l1x1() {
    let tape: [u8; 16] = kani::any();
    let k = tape[0] & 7;
    let f1 = md(1, tape[1] & 7, tape[2] & 7, tape[3] & 7, tape[4] & 7);
    let f2 = md(2, tape[5] & 7, tape[6] & 7, tape[7] & 7, tape[8] & 7);
    let f3 = md(3, tape[9] & 7, tape[10] & 7, tape[11] & 7, tape[12] & 7);
    kani::assume(f1.first_key[0] <= f1.last_key[0] && f2.first_key[0] <= f2.last_key[0] && f3.first_key[0] <= f3.last_key[0]);
    kani::assume(f1.smallest_timestamp <= f1.biggest_timestamp && f2.smallest_timestamp <= f2.biggest_timestamp && f3.smallest_timestamp <= f3.biggest_timestamp);
    kani::assume(f1.biggest_timestamp < f2.smallest_timestamp);
    kani::assume(f3.biggest_timestamp < f1.smallest_timestamp);
    unsafe {
        GH_HAS[1] = tape[13] & 1 == 1 && f1.first_key[0] <= k && k <= f1.last_key[0]; GH_TS[1] = f1.smallest_timestamp;
        GH_HAS[2] = tape[14] & 1 == 1 && f2.first_key[0] <= k && k <= f2.last_key[0]; GH_TS[2] = f2.smallest_timestamp;
        GH_HAS[3] = tape[15] & 1 == 1 && f3.first_key[0] <= k && k <= f3.last_key[0]; GH_TS[3] = f3.smallest_timestamp;
    }
    let mut levels = vec![Level::default(); 3];
    if tape[15] & 2 == 2 { levels[0].ssts = vec![f1.clone(), f2.clone()]; } else { levels[0].ssts = vec![f2.clone(), f1.clone()]; }
    levels[1].ssts = vec![f3.clone()];
    let v = Version { options: opts(), levels, ongoing: Arc::new(Mutex::default()) };
    // the stub never touches these; they are never constructed (construction reaches HashMap/futex)
    let fm_slot = core::mem::MaybeUninit::<FileManager>::uninit();
    let sc_slot = core::mem::MaybeUninit::<LeastRecentlyUsedCache<Setsum, CachedSst>>::uninit();
    let fm: &FileManager = unsafe { &*fm_slot.as_ptr() };
    let sc: &LeastRecentlyUsedCache<Setsum, CachedSst> = unsafe { &*sc_slot.as_ptr() };
    let mut tomb = false;
    let got = v.load(fm, sc, &[k], u64::MAX, &mut tomb).ok().unwrap();
    let want = unsafe { if GH_HAS[2] { Some(GH_TS[2] as u8) } else if GH_HAS[1] { Some(GH_TS[1] as u8) } else if GH_HAS[3] { Some(GH_TS[3] as u8) } else { None } };
    match (got, want) { (None, None) => {}, (Some(g), Some(w)) => { assert!(g[0] == w); core::mem::forget(g); }, _ => { assert!(false); } }
    core::mem::forget(v);
}
