#[cfg(kani)]
mod proofs {
    use scrunch::bit_array::{BitArray, Builder as BitBuilder};
    use scrunch::bit_vector::BitVector;
    use scrunch::bit_vector::rrr::BitVector as Rrr;
    use scrunch::bit_vector::sparse::BitVector as Sparse;
    use scrunch::bit_vector::ReferenceBitVector;
    use scrunch::builder::Builder;

    fn stub_format(_: core::fmt::Arguments<'_>) -> String { String::new() }

    #[kani::proof]
    #[kani::unwind(20)]
    fn bit_array_16() {
        let bits: [bool; 16] = kani::any();
        let mut b = BitBuilder::with_capacity(16);
        let mut i = 0; while i < 16 { b.push(bits[i]); i += 1; }
        let bytes = b.seal();
        let ba = BitArray::new(&bytes);
        let idx: usize = kani::any(); kani::assume(idx < 16);
        assert!(ba.get(idx) == Some(bits[idx]));
        let w: usize = kani::any(); kani::assume(w >= 1 && w <= 8 && idx + w <= 16);
        let x = ba.load(idx, w).unwrap();
        let mut j = 0; while j < 8 { if j < w { assert!(((x >> j) & 1 == 1) == bits[idx + j]); } j += 1; }
        core::mem::forget(bytes);
    }

    fn check<B: BitVector>(bits: &[bool; 8]) {
        let mut buf: Vec<u8> = Vec::new();
        {
            let mut builder = Builder::new(&mut buf);
            B::construct(&bits[..], &mut builder).unwrap();
        }
        let (bv, _rest) = B::parse(&buf).ok().unwrap();
        assert!(bv.len() == 8);
        let x: usize = kani::any(); kani::assume(x <= 8);
        let mut r = 0; let mut i = 0; while i < 8 { if i < x && bits[i] { r += 1; } i += 1; }
        assert!(bv.rank(x) == Some(r));
        if x < 8 { assert!(bv.access(x) == Some(bits[x])); }
        core::mem::forget(bv);
        core::mem::forget(buf);
    }

    #[kani::proof]
    #[kani::unwind(12)]
    #[kani::stub(alloc::fmt::format, stub_format)]
    fn reference_bv_8() { let bits: [bool; 8] = kani::any(); check::<ReferenceBitVector>(&bits); }

    #[kani::proof]
    #[kani::unwind(12)]
    #[kani::stub(alloc::fmt::format, stub_format)]
    fn rrr_bv_8() { let bits: [bool; 8] = kani::any(); check::<Rrr>(&bits); }

    #[kani::proof]
    #[kani::unwind(12)]
    #[kani::stub(alloc::fmt::format, stub_format)]
    fn sparse_bv_8() { let bits: [bool; 8] = kani::any(); check::<Sparse>(&bits); }
}
