use super::*;

static mut DEPTH: usize = 0;
static mut BUDGET: usize = 0;
static mut TAPE: [u8; 6] = [0; 6];
static mut TP: usize = 0;
static mut NEXTV: u8 = 0;

fn take() -> u8 { unsafe { let b = TAPE[TP % 6]; TP += 1; b } }

pub fn yield_point(p: *const ()) {
    unsafe {
        if BUDGET == 0 || DEPTH >= 2 { return; }
        if take() & 1 == 0 { return; }
        BUDGET -= 1;
        DEPTH += 1;
        let l = &*(p as *const List<u8>);
        let v = NEXTV; NEXTV += 1;
        l.prepend(v);
        DEPTH -= 1;
    }
}

#[kani::proof]
fn prepend_nested3() {
    let tape: [u8; 6] = kani::any();
    unsafe { TAPE = tape; TP = 0; BUDGET = 2; DEPTH = 0; NEXTV = 1; }
    let l: List<u8> = List::default();
    l.prepend(0);
    unsafe { BUDGET = 0; while NEXTV < 3 { let v = NEXTV; NEXTV += 1; l.prepend(v); } }
    let mut seen = [0u8; 3];
    let mut n = 0;
    for x in l.iter() { if n < 4 { if (*x as usize) < 3 { seen[*x as usize] += 1; } } n += 1; }
    assert!(n == 3 && seen[0] == 1 && seen[1] == 1 && seen[2] == 1);
    kani::cover!(unsafe { TP } > 0 && (tape[0] & 1 == 1));
    core::mem::forget(l);
}
