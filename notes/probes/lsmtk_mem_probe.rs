use super::*;
use crate::kvs::WriteBatch;
use sst::Cursor;


use handled::SExpr;
fn st_new(_phase: &str) -> SError { SError::from(SExpr::List(Vec::new())) }
fn st_code(s: SError, _c: &str) -> SError { s }
fn st_msg(s: SError, _c: &str) -> SError { s }
fn st_atom<T: ToString>(s: SError, _n: &str, v: T) -> SError { core::mem::forget(v); s }
fn st_str(s: SError, _n: &str, _v: &str) -> SError { s }
fn st_dbg<T: core::fmt::Debug>(s: SError, _n: &str, v: T) -> SError { core::mem::forget(v); s }

fn stub_format(_: core::fmt::Arguments<'_>) -> String { String::new() }

#[kani::proof]
#[kani::stub(alloc::fmt::format, stub_format)]
#[kani::stub(handled::SError::new, st_new)]
#[kani::stub(handled::SError::with_code, st_code)]
#[kani::stub(handled::SError::with_message, st_msg)]
#[kani::stub(handled::SError::with_atom_field, st_atom)]
#[kani::stub(handled::SError::with_string_field, st_str)]
#[kani::stub(handled::SError::with_debug_field, st_dbg)]
fn memtable_cursor_after_drop() {
    let mt = std::sync::Arc::new(MemTable::default());
    let mut wb = WriteBatch::default();
    wb.put(&[5], &[7]);
    mt.write(&mut wb).unwrap();
    let mut c = mt.cursor();
    c.seek_to_first().unwrap();
    drop(mt);
    let k = c.key();
    assert!(k.is_some());
    assert!(k.unwrap().key[0] == 5);
}
