#![allow(dead_code)]
#[cfg(kani)]
mod proofs {
    use sst::{Cursor, KeyRef, SError};
    use sst::merging_cursor::MergingCursor;
    use sst::concat_cursor::ConcatenatingCursor;
    use sst::pruning_cursor::PruningCursor;

    fn stub_format(_: core::fmt::Arguments<'_>) -> String { String::new() }

    #[derive(Clone, Copy)]
    #[repr(C)]
    struct E { t: u64, k: [u8; 1], tomb: bool, v: [u8; 1], pad: [u8; 5] }

    // Fixed-capacity in-memory cursor: the child instantiation for the generic combinators.
    #[derive(Clone)]
    struct ArrCursor<const N: usize> { e: [E; N], n: usize, pos: isize }

    impl<const N: usize> ArrCursor<N> {
        fn new(e: [E; N], n: usize) -> Self { Self { e, n, pos: -1 } }
    }

    impl<const N: usize> Cursor for ArrCursor<N> {
        fn seek_to_first(&mut self) -> Result<(), SError> { self.pos = -1; Ok(()) }
        fn seek_to_last(&mut self) -> Result<(), SError> { self.pos = self.n as isize; Ok(()) }
        fn seek(&mut self, key: &[u8]) -> Result<(), SError> {
            let mut i = 0;
            while i < self.n && &self.e[i].k[..] < key { i += 1; }
            self.pos = i as isize; Ok(())
        }
        fn prev(&mut self) -> Result<(), SError> { if self.pos >= 0 { self.pos -= 1; } Ok(()) }
        fn next(&mut self) -> Result<(), SError> { if self.pos < self.n as isize { self.pos += 1; } Ok(()) }
        fn key(&self) -> Option<KeyRef<'_>> {
            if self.pos >= 0 && (self.pos as usize) < self.n { let e = &self.e[self.pos as usize]; Some(KeyRef::new(&e.k, e.t)) } else { None }
        }
        fn value(&self) -> Option<&[u8]> {
            if self.pos >= 0 && (self.pos as usize) < self.n { let e = &self.e[self.pos as usize]; if e.tomb { None } else { Some(&e.v) } } else { None }
        }
    }

    fn any_e() -> E {
        let k: u8 = kani::any(); let t: u8 = kani::any();
        kani::assume(k < 4 && t < 4);
        E { k: [k], t: t as u64, tomb: kani::any(), v: [k], pad: [0; 5] }
    }
    fn lt(a: &E, b: &E) -> bool { (a.k[0], core::cmp::Reverse(a.t)) < (b.k[0], core::cmp::Reverse(b.t)) }

    // merged reference: sorted array of 4 + position
    #[kani::proof]
    #[kani::unwind(6)]
    #[kani::stub(alloc::fmt::format, stub_format)]
    fn merge_2x2_prog3() {
        let a = [any_e(), any_e()];
        let b = [any_e(), any_e()];
        kani::assume(lt(&a[0], &a[1]) && lt(&b[0], &b[1]));
        // all distinct
        kani::assume(lt(&a[0], &b[0]) || lt(&b[0], &a[0]));
        kani::assume(lt(&a[0], &b[1]) || lt(&b[1], &a[0]));
        kani::assume(lt(&a[1], &b[0]) || lt(&b[0], &a[1]));
        kani::assume(lt(&a[1], &b[1]) || lt(&b[1], &a[1]));
        // reference: merge
        let mut r = [a[0]; 4];
        let (mut i, mut j, mut n) = (0, 0, 0);
        while n < 4 {
            if j >= 2 || (i < 2 && lt(&a[i], &b[j])) { r[n] = a[i]; i += 1; } else { r[n] = b[j]; j += 1; }
            n += 1;
        }
        let mut spec = ArrCursor::<4>::new(r, 4);
        let mut m = MergingCursor::new(vec![ArrCursor::<2>::new(a, 2), ArrCursor::<2>::new(b, 2)]).unwrap();
        let mut step = 0;
        while step < 3 {
            let op: u8 = kani::any();
            kani::assume(op < 5);
            let sk: u8 = kani::any(); kani::assume(sk < 5);
            match op {
                0 => { m.seek_to_first().unwrap(); spec.seek_to_first().unwrap(); }
                1 => { m.seek_to_last().unwrap(); spec.seek_to_last().unwrap(); }
                2 => { m.seek(&[sk]).unwrap(); spec.seek(&[sk]).unwrap(); }
                3 => { m.next().unwrap(); spec.next().unwrap(); }
                _ => { m.prev().unwrap(); spec.prev().unwrap(); }
            }
            match (m.key(), spec.key()) {
                (None, None) => {}
                (Some(x), Some(y)) => { assert!(x.key[0] == y.key[0] && x.timestamp == y.timestamp); assert!(m.value().is_none() == spec.value().is_none()); }
                _ => { assert!(false); }
            }
            step += 1;
        }
        core::mem::forget(m);
    }



    fn tape_e(t: &[u8], i: usize) -> E { E { k: [t[i] & 3], t: (t[i+1] & 3) as u64, tomb: t[i+2] & 1 == 1, v: [t[i] & 3], pad: [0; 5] } }

    pub fn merge_body(tape: &[u8; 18]) -> bool {
        let a = [tape_e(tape, 0), tape_e(tape, 3)];
        let b = [tape_e(tape, 6), tape_e(tape, 9)];
        if !(lt(&a[0], &a[1]) && lt(&b[0], &b[1])) { return true; }
        if !(lt(&a[0], &b[0]) || lt(&b[0], &a[0])) { return true; }
        if !(lt(&a[0], &b[1]) || lt(&b[1], &a[0])) { return true; }
        if !(lt(&a[1], &b[0]) || lt(&b[0], &a[1])) { return true; }
        if !(lt(&a[1], &b[1]) || lt(&b[1], &a[1])) { return true; }
        let mut r = [a[0]; 4];
        let (mut i, mut j, mut n) = (0, 0, 0);
        while n < 4 {
            if j >= 2 || (i < 2 && lt(&a[i], &b[j])) { r[n] = a[i]; i += 1; } else { r[n] = b[j]; j += 1; }
            n += 1;
        }
        let mut spec = ArrCursor::<4>::new(r, 4);
        let mut m = MergingCursor::new(vec![ArrCursor::<2>::new(a, 2), ArrCursor::<2>::new(b, 2)]).unwrap();
        let mut step = 0;
        let mut ok = true;
        while step < 3 {
            let op: u8 = tape[12 + 2 * step] % 5;
            let sk: u8 = tape[13 + 2 * step] % 5;
            match op {
                0 => { m.seek_to_first().unwrap(); spec.seek_to_first().unwrap(); }
                1 => { m.seek_to_last().unwrap(); spec.seek_to_last().unwrap(); }
                2 => { m.seek(&[sk]).unwrap(); spec.seek(&[sk]).unwrap(); }
                3 => { m.next().unwrap(); spec.next().unwrap(); }
                _ => { m.prev().unwrap(); spec.prev().unwrap(); }
            }
            match (m.key(), spec.key()) {
                (None, None) => {}
                (Some(x), Some(y)) => { if !(x.key[0] == y.key[0] && x.timestamp == y.timestamp) { ok = false; } }
                _ => { ok = false; }
            }
            step += 1;
        }
        core::mem::forget(m);
        ok
    }

    #[kani::proof]
    #[kani::unwind(6)]
    #[kani::stub(alloc::fmt::format, stub_format)]
    fn merge_tape() {
        let tape: [u8; 18] = kani::any();
        assert!(merge_body(&tape));
    }

    #[kani::proof]
    #[kani::unwind(6)]
    #[kani::stub(alloc::fmt::format, stub_format)]
    fn merge_concrete() {
        let tape: [u8; 18] = [253,252,255, 254,255,255, 252,253,254, 254,254,254, 137,137, 139,139, 155,137];
        assert!(merge_body(&tape));
    }

    fn tables(tape: &[u8; 12]) -> Option<([E;2],[E;2],[E;4])> {
        let a = [tape_e(tape, 0), tape_e(tape, 3)];
        let b = [tape_e(tape, 6), tape_e(tape, 9)];
        if !(lt(&a[0], &a[1]) && lt(&b[0], &b[1])) { return None; }
        if !(lt(&a[0], &b[0]) || lt(&b[0], &a[0])) { return None; }
        if !(lt(&a[0], &b[1]) || lt(&b[1], &a[0])) { return None; }
        if !(lt(&a[1], &b[0]) || lt(&b[0], &a[1])) { return None; }
        if !(lt(&a[1], &b[1]) || lt(&b[1], &a[1])) { return None; }
        let mut r = [a[0]; 4];
        let (mut i, mut j, mut n) = (0, 0, 0);
        while n < 4 {
            if j >= 2 || (i < 2 && lt(&a[i], &b[j])) { r[n] = a[i]; i += 1; } else { r[n] = b[j]; j += 1; }
            n += 1;
        }
        Some((a, b, r))
    }
    fn same(m: &impl Cursor, s: &impl Cursor) -> bool {
        match (m.key(), s.key()) { (None, None) => true, (Some(x), Some(y)) => x.key[0] == y.key[0] && x.timestamp == y.timestamp, _ => false }
    }

    #[kani::proof]
    #[kani::unwind(6)]
    #[kani::stub(alloc::fmt::format, stub_format)]
    fn m_seek_only() {
        let tape: [u8; 12] = kani::any();
        let sk: u8 = kani::any(); kani::assume(sk < 5);
        if let Some((a, b, r)) = tables(&tape) {
            let mut spec = ArrCursor::<4>::new(r, 4);
            let mut m = MergingCursor::new(vec![ArrCursor::<2>::new(a, 2), ArrCursor::<2>::new(b, 2)]).unwrap();
            m.seek(&[sk]).unwrap(); spec.seek(&[sk]).unwrap();
            assert!(same(&m, &spec));
            core::mem::forget(m);
        }
    }

    #[kani::proof]
    #[kani::unwind(6)]
    #[kani::stub(alloc::fmt::format, stub_format)]
    fn m_seek_prev() {
        let tape: [u8; 12] = kani::any();
        let sk: u8 = kani::any(); kani::assume(sk < 5);
        if let Some((a, b, r)) = tables(&tape) {
            let mut spec = ArrCursor::<4>::new(r, 4);
            let mut m = MergingCursor::new(vec![ArrCursor::<2>::new(a, 2), ArrCursor::<2>::new(b, 2)]).unwrap();
            m.seek(&[sk]).unwrap(); spec.seek(&[sk]).unwrap();
            m.prev().unwrap(); spec.prev().unwrap();
            assert!(same(&m, &spec));
            core::mem::forget(m);
        }
    }

    #[kani::proof]
    #[kani::unwind(6)]
    #[kani::stub(alloc::fmt::format, stub_format)]
    fn m_first_next_next() {
        let tape: [u8; 12] = kani::any();
        if let Some((a, b, r)) = tables(&tape) {
            let mut spec = ArrCursor::<4>::new(r, 4);
            let mut m = MergingCursor::new(vec![ArrCursor::<2>::new(a, 2), ArrCursor::<2>::new(b, 2)]).unwrap();
            m.next().unwrap(); spec.next().unwrap();
            assert!(same(&m, &spec));
            m.next().unwrap(); spec.next().unwrap();
            assert!(same(&m, &spec));
            core::mem::forget(m);
        }
    }

    #[kani::proof]
    #[kani::unwind(6)]
    fn keyref_order() {
        let (k1, k2, t1, t2): (u8, u8, u64, u64) = kani::any();
        let a = [k1]; let b = [k2];
        let x = KeyRef::new(&a, t1); let y = KeyRef::new(&b, t2);
        let want = k1 < k2 || (k1 == k2 && t1 > t2);
        assert!((x < y) == want);
    }

    #[kani::proof]
    #[kani::unwind(6)]
    fn arr_seek() {
        let tape: [u8; 12] = kani::any();
        let sk: u8 = kani::any(); kani::assume(sk < 5);
        if let Some((a, _b, _r)) = tables(&tape) {
            let mut c = ArrCursor::<2>::new(a, 2);
            c.seek(&[sk]).unwrap();
            let want: isize = if a[0].k[0] >= sk { 0 } else if a[1].k[0] >= sk { 1 } else { 2 };
            assert!(c.pos == want);
        }
    }

    #[kani::proof]
    #[kani::unwind(6)]
    #[kani::stub(alloc::fmt::format, stub_format)]
    fn m_seek_children() {
        let tape: [u8; 12] = kani::any();
        let sk: u8 = kani::any(); kani::assume(sk < 5);
        if let Some((a, b, _r)) = tables(&tape) {
            let mut m = MergingCursor::new(vec![ArrCursor::<2>::new(a, 2), ArrCursor::<2>::new(b, 2)]).unwrap();
            m.seek(&[sk]).unwrap();
            // the result must be min over children of first >= sk
            let fa = if a[0].k[0] >= sk { Some(a[0]) } else if a[1].k[0] >= sk { Some(a[1]) } else { None };
            let fb = if b[0].k[0] >= sk { Some(b[0]) } else if b[1].k[0] >= sk { Some(b[1]) } else { None };
            let want = match (fa, fb) { (None, None) => None, (Some(x), None) => Some(x), (None, Some(y)) => Some(y), (Some(x), Some(y)) => if lt(&x, &y) { Some(x) } else { Some(y) } };
            match (m.key(), want) { (None, None) => {}, (Some(k), Some(w)) => { assert!(k.key[0] == w.k[0]); assert!(k.timestamp == w.t); }, _ => assert!(false) }
            core::mem::forget(m);
        }
    }

    #[kani::proof]
    #[kani::unwind(6)]
    fn ref_sorted() {
        let tape: [u8; 12] = kani::any();
        if let Some((_a, _b, r)) = tables(&tape) {
            assert!(lt(&r[0], &r[1]));
            assert!(lt(&r[1], &r[2]));
            assert!(lt(&r[2], &r[3]));
        }
    }
    #[kani::proof]
    #[kani::unwind(6)]
    fn ref_seek4() {
        let tape: [u8; 12] = kani::any();
        let sk: u8 = kani::any(); kani::assume(sk < 5);
        if let Some((_a, _b, r)) = tables(&tape) {
            kani::assume(lt(&r[0], &r[1]) && lt(&r[1], &r[2]) && lt(&r[2], &r[3]));
            let mut c = ArrCursor::<4>::new(r, 4);
            c.seek(&[sk]).unwrap();
            let want: isize = if r[0].k[0] >= sk { 0 } else if r[1].k[0] >= sk { 1 } else if r[2].k[0] >= sk { 2 } else if r[3].k[0] >= sk { 3 } else { 4 };
            assert!(c.pos == want);
        }
    }

    #[kani::proof]
    #[kani::unwind(6)]
    #[kani::stub(alloc::fmt::format, stub_format)]
    fn m_seek_diag() {
        let tape: [u8; 12] = kani::any();
        let sk: u8 = kani::any(); kani::assume(sk < 5);
        if let Some((a, b, r)) = tables(&tape) {
            let mut spec = ArrCursor::<4>::new(r, 4);
            let mut m = MergingCursor::new(vec![ArrCursor::<2>::new(a, 2), ArrCursor::<2>::new(b, 2)]).unwrap();
            m.seek(&[sk]).unwrap(); spec.seek(&[sk]).unwrap();
            let want_pos: isize = if r[0].k[0] >= sk { 0 } else if r[1].k[0] >= sk { 1 } else if r[2].k[0] >= sk { 2 } else if r[3].k[0] >= sk { 3 } else { 4 };
            assert!(spec.pos == want_pos);                       // D1
            let fa = if a[0].k[0] >= sk { Some(a[0]) } else if a[1].k[0] >= sk { Some(a[1]) } else { None };
            let fb = if b[0].k[0] >= sk { Some(b[0]) } else if b[1].k[0] >= sk { Some(b[1]) } else { None };
            let want = match (fa, fb) { (None, None) => None, (Some(x), None) => Some(x), (None, Some(y)) => Some(y), (Some(x), Some(y)) => if lt(&x, &y) { Some(x) } else { Some(y) } };
            match (m.key(), want) { (None, None) => {}, (Some(k), Some(w)) => { assert!(k.key[0] == w.k[0] && k.timestamp == w.t); }, _ => assert!(false) } // D2
            // r is a permutation: every element of a,b appears in r
            let mut cnt = 0; let mut i = 0;
            while i < 4 { if r[i].k[0] == a[0].k[0] && r[i].t == a[0].t { cnt += 1; } i += 1; }
            assert!(cnt == 1);                                   // D3
            match (want, spec.key()) { (None, None) => {}, (Some(w), Some(y)) => { assert!(w.k[0] == y.key[0] && w.t == y.timestamp); }, _ => assert!(false) } // D4
            core::mem::forget(m);
        }
    }

    impl<const N: usize> ArrCursor<N> {
        fn kv(&self) -> Option<(u8, u64, bool)> {
            if self.pos >= 0 && (self.pos as usize) < self.n { let e = self.e[self.pos as usize]; Some((e.k[0], e.t, e.tomb)) } else { None }
        }
    }
    fn same2<const N: usize>(m: &impl Cursor, s: &ArrCursor<N>) -> bool {
        let got = m.key().map(|k| (k.key[0], k.timestamp, m.value().is_none()));
        got == s.kv()
    }
    #[kani::proof]
    #[kani::unwind(6)]
    #[kani::stub(alloc::fmt::format, stub_format)]
    fn m_seek_only2() {
        let tape: [u8; 12] = kani::any();
        let sk: u8 = kani::any(); kani::assume(sk < 5);
        if let Some((a, b, r)) = tables(&tape) {
            let mut spec = ArrCursor::<4>::new(r, 4);
            let mut m = MergingCursor::new(vec![ArrCursor::<2>::new(a, 2), ArrCursor::<2>::new(b, 2)]).unwrap();
            m.seek(&[sk]).unwrap(); spec.seek(&[sk]).unwrap();
            assert!(same2(&m, &spec));
            core::mem::forget(m);
        }
    }
    #[kani::proof]
    #[kani::unwind(6)]
    #[kani::stub(alloc::fmt::format, stub_format)]
    fn m_prog3_v2() {
        let tape: [u8; 12] = kani::any();
        let ops: [u8; 6] = kani::any();
        if let Some((a, b, r)) = tables(&tape) {
            let mut spec = ArrCursor::<4>::new(r, 4);
            let mut m = MergingCursor::new(vec![ArrCursor::<2>::new(a, 2), ArrCursor::<2>::new(b, 2)]).unwrap();
            let mut step = 0;
            while step < 3 {
                let op = ops[2 * step] % 5; let sk = ops[2 * step + 1] % 5;
                match op {
                    0 => { m.seek_to_first().unwrap(); spec.seek_to_first().unwrap(); }
                    1 => { m.seek_to_last().unwrap(); spec.seek_to_last().unwrap(); }
                    2 => { m.seek(&[sk]).unwrap(); spec.seek(&[sk]).unwrap(); }
                    3 => { m.next().unwrap(); spec.next().unwrap(); }
                    _ => { m.prev().unwrap(); spec.prev().unwrap(); }
                }
                assert!(same2(&m, &spec));
                step += 1;
            }
            core::mem::forget(m);
        }
    }

    use sst::gc::GarbageCollectionPolicy;
    #[kani::proof]
    
    #[kani::stub(alloc::fmt::format, stub_format)]
    fn gc_versions_3() {
        let tape: [u8; 10] = kani::any();
        let a = [tape_e(&tape, 0), tape_e(&tape, 3), tape_e(&tape, 6)];
        if !(lt(&a[0], &a[1]) && lt(&a[1], &a[2])) { return; }
        let n = 1 + (tape[9] % 3) as u64;
        let pol = GarbageCollectionPolicy::Versions { number: core::num::NonZeroU64::new(n).unwrap() };
        let mut cur = ArrCursor::<3>::new(a, 3);
        cur.next().unwrap();
        let mut gc = pol.collector(cur, 0).unwrap();
        // safety properties: outputs subset of input, strictly increasing, at most 3
        let mut last: Option<(u8, u64)> = None;
        let mut count = 0;
        let mut first_of_key0_kept = false;
        while count < 4 {
            let nx = match gc.next() { Ok(x) => x.map(|k| (k.key[0], k.timestamp)), Err(_) => { assert!(false); None } };
            match nx {
                None => break,
                Some((k, t)) => {
                    let mut found = false; let mut i = 0;
                    while i < 3 { if a[i].k[0] == k && a[i].t == t { found = true; } i += 1; }
                    assert!(found);
                    if let Some((lk, lts)) = last { assert!(lk < k || (lk == k && lts > t)); }
                    if k == a[0].k[0] && t == a[0].t { first_of_key0_kept = true; }
                    last = Some((k, t));
                }
            }
            count += 1;
        }
        // the newest version of the first key is kept if it is a value
        if !a[0].tomb { assert!(first_of_key0_kept); }
        core::mem::forget(gc);
    }

    #[kani::proof]
    #[kani::stub(alloc::fmt::format, stub_format)]
    fn gc_versions_2() {
        let tape: [u8; 7] = kani::any();
        let a = [tape_e(&tape, 0), tape_e(&tape, 3)];
        if !lt(&a[0], &a[1]) { return; }
        let n = 1 + (tape[6] % 3) as u64;
        let pol = GarbageCollectionPolicy::Versions { number: core::num::NonZeroU64::new(n).unwrap() };
        let mut cur = ArrCursor::<2>::new(a, 2);
        cur.next().unwrap();
        let mut gc = pol.collector(cur, 0).unwrap();
        // safety properties: outputs subset of input, strictly increasing, at most 3
        let mut last: Option<(u8, u64)> = None;
        let mut count = 0;
        let mut first_of_key0_kept = false;
        while count < 3 {
            let nx = match gc.next() { Ok(x) => x.map(|k| (k.key[0], k.timestamp)), Err(_) => { assert!(false); None } };
            match nx {
                None => break,
                Some((k, t)) => {
                    let mut found = false; let mut i = 0;
                    while i < 2 { if a[i].k[0] == k && a[i].t == t { found = true; } i += 1; }
                    assert!(found);
                    if let Some((lk, lts)) = last { assert!(lk < k || (lk == k && lts > t)); }
                    if k == a[0].k[0] && t == a[0].t { first_of_key0_kept = true; }
                    last = Some((k, t));
                }
            }
            count += 1;
        }
        // the newest version of the first key is kept if it is a value
        if !a[0].tomb { assert!(first_of_key0_kept); }
        core::mem::forget(gc);
    }
    #[test]
    fn kani_concrete_playback_merge() {
        let tape: [u8; 18] = [253,252,255, 254,255,255, 252,253,254, 254,254,254, 137,137, 139,139, 155,137];
        assert!(merge_body(&tape));
    }
    #[kani::proof]
    #[kani::unwind(6)]
    #[kani::stub(alloc::fmt::format, stub_format)]
    fn concat_2x2_forward() {
        let a = [any_e(), any_e()];
        let b = [any_e(), any_e()];
        kani::assume(lt(&a[0], &a[1]) && lt(&a[1], &b[0]) && lt(&b[0], &b[1]));
        kani::assume(a[1].k[0] < b[0].k[0]);
        let mut c = ConcatenatingCursor::new(vec![ArrCursor::<2>::new(a, 2), ArrCursor::<2>::new(b, 2)]).unwrap();
        c.seek_to_first().unwrap();
        c.next().unwrap(); assert!(c.key().unwrap().key[0] == a[0].k[0]);
        c.next().unwrap(); assert!(c.key().unwrap().key[0] == a[1].k[0]);
        c.next().unwrap(); assert!(c.key().unwrap().key[0] == b[0].k[0]);
        c.next().unwrap(); assert!(c.key().unwrap().key[0] == b[1].k[0]);
        c.next().unwrap(); assert!(c.key().is_none());
        core::mem::forget(c);
    }

    #[kani::proof]
    #[kani::unwind(8)]
    #[kani::stub(alloc::fmt::format, stub_format)]
    fn prune_3_forward() {
        let a = [any_e(), any_e(), any_e()];
        kani::assume(lt(&a[0], &a[1]) && lt(&a[1], &a[2]));
        let ts: u8 = kani::any(); kani::assume(ts < 5);
        let mut p = PruningCursor::new(ArrCursor::<3>::new(a, 3), ts as u64).unwrap();
        p.seek_to_first().unwrap();
        // spec: for each key, newest version <= ts unless tombstone
        let mut out_n = 0usize; let mut out = [a[0]; 3];
        let mut i = 0;
        while i < 3 {
            // is a[i] the newest version <= ts of its key?
            let mut newest = a[i].t <= ts as u64;
            let mut j = 0;
            while j < i { if a[j].k[0] == a[i].k[0] && a[j].t <= ts as u64 { newest = false; } j += 1; }
            if newest && !a[i].tomb { out[out_n] = a[i]; out_n += 1; }
            i += 1;
        }
        let mut n = 0;
        while n < 4 {
            p.next().unwrap();
            if n < out_n { let k = p.key().unwrap(); assert!(k.key[0] == out[n].k[0] && k.timestamp == out[n].t); }
            else { assert!(p.key().is_none()); }
            n += 1;
        }
        core::mem::forget(p);
    }
}

#[cfg(kani)]
mod playback {
    use super::proofs::*;
}
