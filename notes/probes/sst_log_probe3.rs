use super::*;
use std::io::{Read, Seek, SeekFrom};
use handled::SExpr;

fn st_new(_phase: &str) -> SError { SError::from(SExpr::List(Vec::new())) }
fn st_code(s: SError, _c: &str) -> SError { s }
fn st_msg(s: SError, _c: &str) -> SError { s }
fn st_atom<T: ToString>(s: SError, _n: &str, v: T) -> SError { core::mem::forget(v); s }
fn st_str(s: SError, _n: &str, _v: &str) -> SError { s }
fn st_dbg<T: core::fmt::Debug>(s: SError, _n: &str, v: T) -> SError { core::mem::forget(v); s }
fn stub_format(_: core::fmt::Arguments<'_>) -> String { String::new() }
fn stub_crc(buf: &[u8]) -> u32 {
    let mut acc: u32 = buf.len() as u32;
    let mut i = 0;
    while i < buf.len() { acc = acc.wrapping_mul(31).wrapping_add(buf[i] as u32); i += 1; }
    acc
}

const N: usize = 22;
struct ArrReader { data: [u8; N], base: u64, pos: u64 }
impl Read for ArrReader {
    fn read(&mut self, buf: &mut [u8]) -> std::io::Result<usize> {
        let off = (self.pos - self.base) as usize;
        let avail = N - off;
        let n = if buf.len() < avail { buf.len() } else { avail };
        let mut i = 0;
        while i < n { buf[i] = self.data[off + i]; i += 1; }
        self.pos += n as u64;
        Ok(n)
    }
}
impl Seek for ArrReader {
    fn seek(&mut self, from: SeekFrom) -> std::io::Result<u64> {
        match from {
            SeekFrom::Start(x) => { self.pos = x; }
            SeekFrom::Current(d) => { self.pos = (self.pos as i64 + d) as u64; }
            SeekFrom::End(_) => { self.pos = self.base + N as u64; }
        }
        Ok(self.pos)
    }
}

#[kani::proof]
#[kani::stub(alloc::fmt::format, stub_format)]
#[kani::stub(crc32c::crc32c, stub_crc)]
#[kani::stub(handled::SError::new, st_new)]
#[kani::stub(handled::SError::with_code, st_code)]
#[kani::stub(handled::SError::with_message, st_msg)]
#[kani::stub(handled::SError::with_atom_field, st_atom)]
#[kani::stub(handled::SError::with_string_field, st_str)]
#[kani::stub(handled::SError::with_debug_field, st_dbg)]
fn log_reader_unbuffered() {
    let k: u8 = kani::any(); let v: u8 = kani::any();
    let payload = [66u8, 9, 8, 0, 18, 1, k, 24, 5, 34, 1, v];
    let crc = stub_crc(&payload).to_le_bytes();
    let mut data = [0u8; N];
    let hdr = [9u8, 80, 12, 88, 1, 101, crc[0], crc[1], crc[2], crc[3]];
    let mut i = 0; while i < 10 { data[i] = hdr[i]; i += 1; }
    let mut i = 0; while i < 12 { data[10 + i] = payload[i]; i += 1; }
    let opts = LogOptions { write_buffer: 128, read_buffer: 0, rollover_size: 1 << 30 };
    let rd = ArrReader { data, base: 0, pos: 0 };
    let mut it = LogIterator::from_reader(opts, rd).unwrap();
    match it.next() {
        Ok(Some(kvr)) => { assert!(kvr.key.len() == 1 && kvr.key[0] == k && kvr.timestamp == 5); }
        _ => { assert!(false); }
    }
    core::mem::forget(it);
}

fn stub_setsum_put(s: &mut crate::setsum::Setsum, _k: &[u8], _t: u64, _v: &[u8]) { *s += crate::setsum::Setsum::from_digest([1u8; 32]); }
fn stub_setsum_del(s: &mut crate::setsum::Setsum, _k: &[u8], _t: u64) { *s += crate::setsum::Setsum::from_digest([2u8; 32]); }

struct VecReader { data: Vec<u8>, base: u64, pos: u64 }
impl Read for VecReader {
    fn read(&mut self, buf: &mut [u8]) -> std::io::Result<usize> {
        let off = (self.pos - self.base) as usize;
        let avail = self.data.len() - off;
        let n = if buf.len() < avail { buf.len() } else { avail };
        let mut i = 0;
        while i < n { buf[i] = self.data[off + i]; i += 1; }
        self.pos += n as u64;
        Ok(n)
    }
}
impl Seek for VecReader {
    fn seek(&mut self, from: SeekFrom) -> std::io::Result<u64> {
        match from {
            SeekFrom::Start(x) => { self.pos = x; }
            SeekFrom::Current(d) => { self.pos = (self.pos as i64 + d) as u64; }
            SeekFrom::End(_) => { self.pos = self.base + self.data.len() as u64; }
        }
        Ok(self.pos)
    }
}

fn roundtrip(gap: u64) {
    let mut out: Vec<u8> = Vec::new();
    let opts = LogOptions { write_buffer: 128, read_buffer: 0, rollover_size: 1 << 30 };
    let base = BLOCK_SIZE - gap;
    let key: [u8; 2] = kani::any();
    let val: [u8; 3] = kani::any();
    {
        let mut lb = LogBuilder::from_write(opts.clone(), &mut out).unwrap();
        lb.bytes_written = base;
        lb.put(&key, 5, &val).unwrap();
        lb.flush().unwrap();
        core::mem::forget(lb);
    }
    let rd = VecReader { data: out, base, pos: base };
    let mut it = LogIterator::from_reader(opts, rd).unwrap();
    match it.next() {
        Ok(Some(kvr)) => {
            assert!(kvr.key.len() == 2 && kvr.key[0] == key[0] && kvr.key[1] == key[1]);
            assert!(kvr.timestamp == 5);
            let v = kvr.value.unwrap();
            assert!(v.len() == 3 && v[0] == val[0] && v[2] == val[2]);
        }
        _ => { assert!(false); }
    }
    match it.next() { Ok(None) => {}, _ => { assert!(false); } }
    core::mem::forget(it);
}
#[kani::proof]
#[kani::stub(alloc::fmt::format, stub_format)]
#[kani::stub(crc32c::crc32c, stub_crc)]
#[kani::stub(crate::setsum::Setsum::put, stub_setsum_put)]
#[kani::stub(crate::setsum::Setsum::del, stub_setsum_del)]
#[kani::stub(handled::SError::new, st_new)]
#[kani::stub(handled::SError::with_code, st_code)]
#[kani::stub(handled::SError::with_message, st_msg)]
#[kani::stub(handled::SError::with_atom_field, st_atom)]
#[kani::stub(handled::SError::with_string_field, st_str)]
#[kani::stub(handled::SError::with_debug_field, st_dbg)]
fn log_rt_gap30() { roundtrip(30); }
#[kani::proof]
#[kani::stub(alloc::fmt::format, stub_format)]
#[kani::stub(crc32c::crc32c, stub_crc)]
#[kani::stub(crate::setsum::Setsum::put, stub_setsum_put)]
#[kani::stub(crate::setsum::Setsum::del, stub_setsum_del)]
#[kani::stub(handled::SError::new, st_new)]
#[kani::stub(handled::SError::with_code, st_code)]
#[kani::stub(handled::SError::with_message, st_msg)]
#[kani::stub(handled::SError::with_atom_field, st_atom)]
#[kani::stub(handled::SError::with_string_field, st_str)]
#[kani::stub(handled::SError::with_debug_field, st_dbg)]
fn log_rt_gap12() { roundtrip(12); }

const M: usize = 44;
struct ArrReader2 { data: [u8; M], base: u64, pos: u64 }
impl Read for ArrReader2 {
    fn read(&mut self, buf: &mut [u8]) -> std::io::Result<usize> {
        let off = (self.pos - self.base) as usize;
        let avail = if off <= M { M - off } else { 0 };
        let n = if buf.len() < avail { buf.len() } else { avail };
        let mut i = 0;
        while i < n { buf[i] = self.data[off + i]; i += 1; }
        self.pos += n as u64;
        Ok(n)
    }
}
impl Seek for ArrReader2 {
    fn seek(&mut self, from: SeekFrom) -> std::io::Result<u64> {
        match from {
            SeekFrom::Start(x) => { self.pos = x; }
            SeekFrom::Current(d) => { self.pos = (self.pos as i64 + d) as u64; }
            SeekFrom::End(_) => { self.pos = self.base + M as u64; }
        }
        Ok(self.pos)
    }
}
#[kani::proof]
#[kani::stub(alloc::fmt::format, stub_format)]
#[kani::stub(crc32c::crc32c, stub_crc)]
#[kani::stub(handled::SError::new, st_new)]
#[kani::stub(handled::SError::with_code, st_code)]
#[kani::stub(handled::SError::with_message, st_msg)]
#[kani::stub(handled::SError::with_atom_field, st_atom)]
#[kani::stub(handled::SError::with_string_field, st_str)]
#[kani::stub(handled::SError::with_debug_field, st_dbg)]
fn log_reader_split_template() {
    let k: [u8; 2] = kani::any(); let v: [u8; 3] = kani::any();
    let first = [66u8, 13, 8, 0];
    let second = [18u8, 2, k[0], k[1], 24, 5, 34, 3, v[0], v[1], v[2]];
    let c1 = stub_crc(&first).to_le_bytes();
    let c2 = stub_crc(&second).to_le_bytes();
    let mut data = [0u8; M];
    let h1 = [9u8, 80, 4, 88, 2, 101, c1[0], c1[1], c1[2], c1[3]];
    let h2 = [9u8, 80, 11, 88, 3, 101, c2[0], c2[1], c2[2], c2[3]];
    let mut i = 0; while i < 10 { data[i] = h1[i]; i += 1; }
    let mut i = 0; while i < 4 { data[10 + i] = first[i]; i += 1; }
    let mut i = 0; while i < 10 { data[23 + i] = h2[i]; i += 1; }
    let mut i = 0; while i < 11 { data[33 + i] = second[i]; i += 1; }
    let opts = LogOptions { write_buffer: 128, read_buffer: 0, rollover_size: 1 << 30 };
    let base = BLOCK_SIZE - 23;
    let rd = ArrReader2 { data, base, pos: base };
    let mut it = LogIterator::from_reader(opts, rd).unwrap();
    match it.next() {
        Ok(Some(kvr)) => {
            assert!(kvr.key.len() == 2 && kvr.key[0] == k[0] && kvr.key[1] == k[1] && kvr.timestamp == 5);
            let val = kvr.value.unwrap();
            assert!(val.len() == 3 && val[0] == v[0] && val[1] == v[1] && val[2] == v[2]);
        }
        _ => { assert!(false); }
    }
    match it.next() { Ok(None) => {}, _ => { assert!(false); } }
    core::mem::forget(it);
}
