use super::*;

type SL = SkipList<u8, u8, 2>;

static mut HEIGHTS: [usize; 4] = [1; 4];
static mut NEXT_H: usize = 0;
static mut DEPTH: usize = 0;
static mut BUDGET: usize = 0;
static mut TAPE: [u8; 4] = [0; 4];
static mut TP: usize = 0;
static mut KEYS: [u8; 2] = [0; 2];
static mut KP: usize = 0;
static mut DONE: [u8; 2] = [0; 2];
static mut NDONE: usize = 0;

pub fn scripted_height() -> Option<usize> {
    unsafe { let h = HEIGHTS[NEXT_H % 4]; NEXT_H += 1; Some(h) }
}
fn take() -> u8 { unsafe { let b = TAPE[TP % 4]; TP += 1; b } }
fn do_insert(sl: &SL, k: u8) { sl.insert(k, k); unsafe { DONE[NDONE] = k; NDONE += 1; } }

pub fn yield_point(p: *const ()) {
    unsafe {
        if BUDGET == 0 || DEPTH >= 1 { return; }
        let choice = take();
        if choice & 1 == 0 { return; }
        BUDGET -= 1;
        DEPTH += 1;
        let sl = &*(p as *const SL);
        let k = KEYS[KP]; KP += 1;
        do_insert(sl, k);
        DEPTH -= 1;
    }
}

fn run(h: [usize; 4]) {
    let tape: [u8; 4] = kani::any();
    let keys: [u8; 2] = kani::any();
    kani::assume(keys[0] != keys[1] && keys[0] != 0 && keys[1] != 0);
    unsafe { HEIGHTS = h; NEXT_H = 0; TAPE = tape; TP = 0; KEYS = keys; KP = 1; BUDGET = 1; DEPTH = 0; NDONE = 0; }
    let sl: SL = SkipList::default();
    do_insert(&sl, keys[0]);
    unsafe { BUDGET = 0; while KP < 2 { let k = KEYS[KP]; KP += 1; do_insert(&sl, k); } }
    assert!(sl.contains(&keys[0]) && sl.contains(&keys[1]));
    let mut it = sl.iter();
    it.seek_to_first();
    assert!(it.is_valid());
    let a = *it.key(); it.next();
    assert!(it.is_valid());
    let b = *it.key(); it.next();
    assert!(!it.is_valid());
    assert!(a < b);
    kani::cover!(unsafe { NDONE == 2 && DONE[0] == KEYS[1] });
    core::mem::forget(sl);
}

#[kani::proof]
fn nested2_h11() { run([1, 1, 1, 1]); }
#[kani::proof]
fn nested2_h21() { run([2, 1, 2, 1]); }
