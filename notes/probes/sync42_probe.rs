use crate::lru::*;
use crate::wait_list::*;

#[kani::proof]
#[kani::unwind(8)]
fn lru_basic() {
    let lru = LeastRecentlyUsedCache::<u8, u64>::new(16);
    lru.insert(1, 10);
    lru.insert(2, 20);
    let x = lru.lookup(&1);
    assert!(x == Some(10));
    lru.insert(3, 30);
    // capacity 16 bytes = 2 entries; LRU is key 2
    assert!(lru.lookup(&2).is_none());
    assert!(lru.lookup(&1) == Some(10));
    assert!(lru.approximate_size() == 16);
    core::mem::forget(lru);
}
