int __verif_done = 0;
int verif_spawn2(int (*f)(unsigned char*), unsigned char* a, int (*g)(unsigned char*), unsigned char* b) {
  __CPROVER_ASYNC_1: { f(a); __CPROVER_atomic_begin(); __verif_done = 1; __CPROVER_atomic_end(); }
  g(b);
  __CPROVER_assume(__verif_done == 1);
  return 0;
}
