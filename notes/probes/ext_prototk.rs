#[cfg(kani)]
mod proofs {
    use buffertk::{stack_pack, Packable, Unpackable, Unpacker};
    use prototk::{Tag, FieldNumber, WireType, FieldIterator};
    use prototk_derive::Message;


    use handled::{SError, SExpr};
    fn st_new(_phase: &str) -> SError { SError::from(SExpr::List(Vec::new())) }
    fn st_code(s: SError, _c: &str) -> SError { s }
    fn st_msg(s: SError, _c: &str) -> SError { s }
    fn st_atom<T: ToString>(s: SError, _n: &str, v: T) -> SError { core::mem::forget(v); s }
    fn st_str(s: SError, _n: &str, _v: &str) -> SError { s }
    fn st_dbg<T: core::fmt::Debug>(s: SError, _n: &str, v: T) -> SError { core::mem::forget(v); s }

    fn stub_format(_: core::fmt::Arguments<'_>) -> String { String::new() }

    #[derive(Clone, Debug, Default, Message, PartialEq)]
    struct Small {
        #[prototk(1, uint64)]
        a: u64,
        #[prototk(2, sint32)]
        b: i32,
    }

    #[kani::proof]
    #[kani::stub(alloc::fmt::format, stub_format)]
    #[kani::stub(handled::SError::new, st_new)]
    #[kani::stub(handled::SError::with_code, st_code)]
    #[kani::stub(handled::SError::with_message, st_msg)]
    #[kani::stub(handled::SError::with_atom_field, st_atom)]
    #[kani::stub(handled::SError::with_string_field, st_str)]
    #[kani::stub(handled::SError::with_debug_field, st_dbg)]
    fn tag_roundtrip() {
        let f: u32 = kani::any();
        let w: u8 = kani::any();
        kani::assume(FieldNumber::is_valid(f));
        let wt = match w % 4 { 0 => WireType::Varint, 1 => WireType::SixtyFour, 2 => WireType::LengthDelimited, _ => WireType::ThirtyTwo };
        let tag = Tag { field_number: FieldNumber::must(f), wire_type: wt };
        let mut buf = [0u8; 5];
        let n = tag.pack_sz();
        assert!(n <= 5);
        tag.pack(&mut buf[..n]);
        let (t2, rest) = <Tag as Unpackable>::unpack(&buf[..n]).ok().unwrap();
        assert!(t2 == tag && rest.len() == 0);
    }

    #[kani::proof]
    #[kani::stub(alloc::fmt::format, stub_format)]
    #[kani::stub(handled::SError::new, st_new)]
    #[kani::stub(handled::SError::with_code, st_code)]
    #[kani::stub(handled::SError::with_message, st_msg)]
    #[kani::stub(handled::SError::with_atom_field, st_atom)]
    #[kani::stub(handled::SError::with_string_field, st_str)]
    #[kani::stub(handled::SError::with_debug_field, st_dbg)]
    fn field_iter_garbage_6() {
        let buf: [u8; 6] = kani::any();
        let mut err = None;
        let mut it = FieldIterator::new(&buf, &mut err);
        let mut n = 0;
        while n < 7 {
            match it.next() { None => break, Some((_t, b)) => { assert!(b.len() <= 6); } }
            n += 1;
        }
        assert!(n <= 6);
        core::mem::forget(err);
    }

    #[kani::proof]
    #[kani::stub(alloc::fmt::format, stub_format)]
    #[kani::stub(handled::SError::new, st_new)]
    #[kani::stub(handled::SError::with_code, st_code)]
    #[kani::stub(handled::SError::with_message, st_msg)]
    #[kani::stub(handled::SError::with_atom_field, st_atom)]
    #[kani::stub(handled::SError::with_string_field, st_str)]
    #[kani::stub(handled::SError::with_debug_field, st_dbg)]
    fn small_msg_roundtrip() {
        let m = Small { a: (kani::any::<u8>() & 0x7f) as u64, b: (kani::any::<i8>() >> 2) as i32 };
        let buf = stack_pack(&m).to_vec();
        let mut up = Unpacker::new(&buf);
        let m2: Small = up.unpack().ok().unwrap();
        assert!(m2.a == m.a && m2.b == m.b);
        core::mem::forget(buf);
    }
}
