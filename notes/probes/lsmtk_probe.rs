use super::*;
use sst::SstMetadata;


use handled::SExpr;
fn st_new(_phase: &str) -> SError { SError::from(SExpr::List(Vec::new())) }
fn st_code(s: SError, _c: &str) -> SError { s }
fn st_msg(s: SError, _c: &str) -> SError { s }
fn st_atom<T: ToString>(s: SError, _n: &str, v: T) -> SError { core::mem::forget(v); s }
fn st_str(s: SError, _n: &str, _v: &str) -> SError { s }
fn st_dbg<T: core::fmt::Debug>(s: SError, _n: &str, v: T) -> SError { core::mem::forget(v); s }

fn stub_format(_: core::fmt::Arguments<'_>) -> String { String::new() }

fn opts() -> LsmtkOptions {
    LsmtkOptions {
        mani: Default::default(),
        log: Default::default(),
        sst: Default::default(),
        path: String::new(),
        max_open_files: 1 << 19,
        max_compaction_bytes: 1 << 29,
        max_compaction_files: 1 << 6,
        l0_mandatory_compaction_threshold_files: 4,
        l0_mandatory_compaction_threshold_bytes: 1 << 26,
        l0_write_stall_threshold_files: 12,
        l0_write_stall_threshold_bytes: 1 << 28,
        memtable_size_bytes: 1 << 26,
        gc_policy: sst::gc::GarbageCollectionPolicy::Versions { number: std::num::NonZeroU64::new(1).unwrap() },
        sst_cache_bytes: 1 << 26,
    }
}

fn md(id: u8, lo: u8, hi: u8) -> Arc<SstMetadata> {
    let mut setsum = [0u8; 32];
    setsum[0] = id;
    Arc::new(SstMetadata { setsum, first_key: vec![lo], last_key: vec![hi], smallest_timestamp: 0, biggest_timestamp: 0, file_size: 1 })
}
fn sorted_disjoint(level: &Level) -> bool {
    let mut i = 1;
    while i < level.ssts.len() {
        if level.ssts[i - 1].last_key[0] > level.ssts[i].first_key[0] { return false; }
        i += 1;
    }
    true
}

// apply_compaction_inner with a harness-made, closed core: L1 file [a,b] into L2 [c,d],[e,f]
#[kani::proof]
#[kani::stub(alloc::fmt::format, stub_format)]
#[kani::stub(handled::SError::new, st_new)]
#[kani::stub(handled::SError::with_code, st_code)]
#[kani::stub(handled::SError::with_message, st_msg)]
#[kani::stub(handled::SError::with_atom_field, st_atom)]
#[kani::stub(handled::SError::with_string_field, st_str)]
#[kani::stub(handled::SError::with_debug_field, st_dbg)]
fn apply_inner_splice() {
    let tape: [u8; 8] = kani::any();
    let f1 = md(1, tape[0] & 7, tape[1] & 7);
    let f3 = md(3, tape[2] & 7, tape[3] & 7);
    let f4 = md(4, tape[4] & 7, tape[5] & 7);
    kani::assume(f1.first_key[0] <= f1.last_key[0] && f3.first_key[0] <= f3.last_key[0] && f4.first_key[0] <= f4.last_key[0]);
    let mut levels = vec![Level::default(); 3];
    levels[1].ssts = vec![f1.clone()];
    levels[2].ssts = vec![f3.clone(), f4.clone()];
    kani::assume(sorted_disjoint(&levels[2]));
    // closed core: covers f1 and exactly the L2 files it overlaps; range = union
    let lo = tape[6] & 7; let hi = tape[7] & 7;
    kani::assume(lo <= f1.first_key[0] && f1.last_key[0] <= hi);
    let o3 = f3.first_key[0] <= hi && lo <= f3.last_key[0];
    let o4 = f4.first_key[0] <= hi && lo <= f4.last_key[0];
    kani::assume(!o3 || (lo <= f3.first_key[0] && f3.last_key[0] <= hi));
    kani::assume(!o4 || (lo <= f4.first_key[0] && f4.last_key[0] <= hi));
    let mut inputs = vec![Setsum::from_digest(f1.setsum)];
    if o3 { inputs.push(Setsum::from_digest(f3.setsum)); }
    if o4 { inputs.push(Setsum::from_digest(f4.setsum)); }
    let core = Arc::new(CompactionCore { compaction_id: CompactionID::BOTTOM, lower_level: 1, upper_level: 2, first_key: vec![lo], last_key: vec![hi], inputs, size: 3 });
    let v = Version { options: opts(), levels, ongoing: Arc::new(Mutex::default()) };
    let out = SstMetadata { setsum: [9u8; 32], first_key: vec![lo], last_key: vec![hi], smallest_timestamp: 0, biggest_timestamp: 7, file_size: 1 };
    let v2 = v.apply_compaction_inner(core, vec![out]).unwrap();
    assert!(v2.levels[1].ssts.len() == 0);
    assert!(sorted_disjoint(&v2.levels[2]));
    let n2 = v2.levels[2].ssts.len();
    assert!(n2 == 3 - (o3 as usize) - (o4 as usize));
    core::mem::forget(v2);
    core::mem::forget(v);
}
