use crate::block::*;
use crate::reference::*;
use crate::merging_cursor::MergingCursor;
use crate::pruning_cursor::PruningCursor;
use crate::{Builder, Cursor};

fn stub_format(_: core::fmt::Arguments<'_>) -> String { String::new() }

#[kani::proof]
#[kani::unwind(4)]
#[kani::stub(alloc::fmt::format, stub_format)]
fn a_block_put1() {
    let k1: [u8; 1] = kani::any();
    let t1: u64 = kani::any();
    let mut b = BlockBuilder::new(BlockBuilderOptions::default());
    let r1 = b.put(&k1, t1, &[7]);
    kani::assume(r1.is_ok());
    let block = b.seal().unwrap();
    let mut c = block.cursor();
    c.seek_to_first().unwrap();
    c.next().unwrap();
    let kr = c.key().unwrap();
    assert!(kr.key[0] == k1[0] && kr.timestamp == t1);
    core::mem::forget(c);
    core::mem::forget(block);
}

#[kani::proof]
#[kani::unwind(5)]
#[kani::stub(alloc::fmt::format, stub_format)]
fn d_divide_keys() {
    let a: [u8; 2] = kani::any();
    let b: [u8; 2] = kani::any();
    let la: usize = kani::any();
    let lb: usize = kani::any();
    kani::assume(la <= 2 && lb <= 2);
    let ta: u64 = kani::any();
    let tb: u64 = kani::any();
    let ka = crate::KeyRef::new(&a[..la], ta);
    let kb = crate::KeyRef::new(&b[..lb], tb);
    kani::assume(ka < kb);
    let (d, dt) = crate::divide_keys(&a[..la], ta, &b[..lb], tb);
    let kd = crate::KeyRef::new(&d, dt);
    assert!(ka <= kd);
    assert!(kd < kb);
    core::mem::forget(d);
}

#[kani::proof]
#[kani::unwind(12)]
#[kani::stub(alloc::fmt::format, stub_format)]
fn f_block_new_garbage() {
    let bytes: [u8; 8] = kani::any();
    let len: usize = kani::any();
    kani::assume(len <= 8);
    let v = bytes[..len].to_vec();
    if let Ok(block) = Block::new(v) {
        let mut c = block.cursor();
        let _ = c.seek(&[1]);
        core::mem::forget(c);
        core::mem::forget(block);
    }
}

fn table1(k: u8, t: u8, tomb: bool) -> ReferenceTable {
    let mut b = ReferenceBuilder::default();
    if tomb { b.del(&[k], t as u64).unwrap(); } else { b.put(&[k], t as u64, &[k]).unwrap(); }
    b.seal().unwrap()
}

#[kani::proof]
#[kani::unwind(5)]
#[kani::stub(alloc::fmt::format, stub_format)]
fn c_merge_2x1() {
    let (k1, t1, k2, t2): (u8, u8, u8, u8) = kani::any();
    kani::assume(k1 < 4 && k2 < 4 && t1 < 4 && t2 < 4);
    kani::assume(!(k1 == k2 && t1 == t2));
    let ta = table1(k1, t1, kani::any());
    let tb = table1(k2, t2, kani::any());
    let mut m = MergingCursor::new(vec![ta.cursor(), tb.cursor()]).unwrap();
    m.seek_to_first().unwrap();
    m.next().unwrap();
    let first = m.key().unwrap();
    let a = crate::KeyRef::new(&[0u8][..0], 0); let _ = a;
    let (fk, ft) = (first.key[0], first.timestamp);
    // min of the two
    let a_lt_b = (k1, core::cmp::Reverse(t1)) < (k2, core::cmp::Reverse(t2));
    if a_lt_b { assert!(fk == k1 && ft == t1 as u64); } else { assert!(fk == k2 && ft == t2 as u64); }
    m.next().unwrap();
    let second = m.key().unwrap();
    if a_lt_b { assert!(second.key[0] == k2); } else { assert!(second.key[0] == k1); }
    m.next().unwrap();
    assert!(m.key().is_none());
    m.prev().unwrap();
    let last = m.key().unwrap();
    if a_lt_b { assert!(last.key[0] == k2); } else { assert!(last.key[0] == k1); }
    core::mem::forget(m);
}
