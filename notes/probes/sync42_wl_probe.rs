use super::*;

fn noop_notify(_: &Condvar) {}

fn small(n: usize) -> WaitList<u8> {
    let mut waiters = Vec::new();
    let mut i = 0;
    while i < n { waiters.push(Waiter::new()); i += 1; }
    WaitList { state: Mutex::new(WaitListState { head: 0, tail: 0, waiting_for_available: 0 }), waiters, wait_waiter_available: Condvar::new() }
}

#[kani::proof]
#[kani::unwind(6)]
#[kani::stub(std::sync::Condvar::notify_one, noop_notify)]
fn wl_unlink_order() {
    let wl = small(4);
    let mut g0 = wl.link(0);
    let mut g1 = wl.link(1);
    let mut g2 = wl.link(2);
    assert!(g0.is_head() && !g1.is_head() && !g2.is_head());
    if kani::any() {
        wl.unlink(g1);
        assert!(g0.is_head() && !g2.is_head());
        wl.unlink(g0);
        assert!(g2.is_head());
        wl.unlink(g2);
    } else {
        wl.unlink(g0);
        assert!(g1.is_head() && !g2.is_head());
        wl.unlink(g2);
        assert!(g1.is_head());
        wl.unlink(g1);
    }
    core::mem::forget(wl);
}
