#[cfg(kani)]
mod proofs {
    use setsum::*;
    #[kani::proof]
    fn hexdigest_roundtrip() {
        let d: [u8; 32] = kani::any();
        let s = Setsum::from_digest(d);
        let h = s.hexdigest();
        assert!(h.len() == 64);
        let s2 = Setsum::from_hexdigest(&h);
        assert!(s2 == Some(s));
        core::mem::forget(h);
    }
}
