use super::*;

unsafe extern "C" {
    fn verif_spawn2(f: extern "C" fn(*mut u8) -> i32, a: *mut u8, g: extern "C" fn(*mut u8) -> i32, b: *mut u8) -> i32;
}

struct Ctx { list: *const List<u8>, val: u8 }

extern "C" fn worker(p: *mut u8) -> i32 {
    let ctx = unsafe { &*(p as *const Ctx) };
    let list = unsafe { &*ctx.list };
    list.prepend(ctx.val); 0
}

#[kani::proof]
#[kani::unwind(4)]
fn prepend_two_threads() {
    let list: List<u8> = List::default();
    let mut c1 = Ctx { list: &list, val: 1 };
    let mut c2 = Ctx { list: &list, val: 2 };
    unsafe { verif_spawn2(worker, &mut c1 as *mut Ctx as *mut u8, worker, &mut c2 as *mut Ctx as *mut u8); }
    // after join: both present exactly once
    let mut n1 = 0; let mut n2 = 0; let mut n = 0;
    for x in list.iter() { if *x == 1 { n1 += 1; } if *x == 2 { n2 += 1; } n += 1; }
    assert!(n == 2 && n1 == 1 && n2 == 1);
    core::mem::forget(list);
}

#[kani::proof]
#[kani::unwind(4)]
fn prepend_seq_sanity() {
    let list: List<u8> = List::default();
    list.prepend(1);
    list.prepend(2);
    let mut n = 0;
    for _ in list.iter() { n += 1; }
    assert!(n == 2);
    core::mem::forget(list);
}
