#!/usr/bin/env python3
"""Auto-tune per-loop unwind bounds: start with a small global bound, raise only loops whose
unwinding assertion fails.  Usage: tune.py <workdir> <harness> <timeout_s> [extra cargo kani args...]"""
import re, subprocess, sys, time, os
wd, harness, cap = sys.argv[1], sys.argv[2], int(sys.argv[3])
extra = sys.argv[4:]
glob = int(os.environ.get("GLOBAL_UNWIND", "3"))
bounds = {}
for it in range(40):
    us = ",".join(f"{k}:{v}" for k, v in bounds.items())
    cmd = ["cargo", "kani", "-Z", "stubbing", "-Z", "unstable-options", "--harness-timeout", f"{cap}s",
           "--harness", harness, "--exact" if os.environ.get("EXACT") else "--output-format", "old"] 
    if os.environ.get("EXACT"): cmd += ["--output-format", "old"]
    cmd += extra + ["--cbmc-args", "--unwind", str(glob)] + (["--unwindset", us] if us else [])
    t0 = time.time()
    p = subprocess.run(cmd, cwd=wd, stdout=subprocess.PIPE, stderr=subprocess.STDOUT, text=True, env=dict(os.environ, CARGO_NET_OFFLINE="true"))
    dt = time.time() - t0
    out = p.stdout
    open(f"/scratch/tune_{harness}_{it}.log", "w").write(out)
    if "timed out" in out or "out of memory" in out:
        print(f"iter {it}: TIMEOUT/OOM after {dt:.0f}s bounds={bounds}"); sys.exit(2)
    # map pretty function name -> mangled loop label prefix
    lab = {}
    for m in re.finditer(r"(?:Not unwinding|Unwinding) loop (\S+)\.(\d+) iteration \d+ .*? function (.+?) thread", out):
        lab[(m.group(3).strip(), m.group(2))] = f"{m.group(1)}.{m.group(2)}"
    failed = re.findall(r"\[(.+?)\.unwind\.(\d+)\] .*unwinding assertion loop \d+: FAILURE", out)
    rec_failed = re.findall(r"\[(.+?)\.recursion\] .*: FAILURE", out)
    other_fail = [l for l in out.splitlines() if l.rstrip().endswith(": FAILURE") and "unwinding assertion" not in l and "recursion" not in l and "reachability_check" not in l and ".cover." not in l]
    verdict = "SUCCESSFUL" if "VERIFICATION SUCCESSFUL" in out else ("FAILED" if "VERIFICATION FAILED" in out else "?")
    sym = re.findall(r"Runtime Symex: ([\d.]+)s", out); dec = re.findall(r"Runtime decision procedure: ([\d.]+)s", out)
    print(f"iter {it}: {verdict} in {dt:.0f}s symex={sym[-1] if sym else '?'} dec_total={sum(map(float,dec)):.0f}s unwind_fail={len(failed)} rec_fail={len(rec_failed)} other_fail={len(other_fail)}")
    if verdict == "?":
        print("   => TIMEOUT/abort"); sys.exit(2)
    if not failed and not rec_failed:
        for l in other_fail[:6]: print("   ", l[:200])
        print("bounds:", bounds); print("REAL VERDICT:", "PASS" if not other_fail else "FAIL"); sys.exit(0 if not other_fail else 1)
    for fn, n in failed:
        key = lab.get((fn, n))
        if key is None:
            print("   cannot map", fn, n); continue
        cur = bounds.get(key, glob)
        bounds[key] = 34 if key.startswith('memcmp') else cur * 2 + 1
    if rec_failed: glob += 1
print("gave up", bounds); sys.exit(3)
