use super::*;
use crate::{Builder, Cursor};


use handled::SExpr;
fn st_new(_phase: &str) -> SError { SError::from(SExpr::List(Vec::new())) }
fn st_code(s: SError, _c: &str) -> SError { s }
fn st_msg(s: SError, _c: &str) -> SError { s }
fn st_atom<T: ToString>(s: SError, _n: &str, v: T) -> SError { core::mem::forget(v); s }
fn st_str(s: SError, _n: &str, _v: &str) -> SError { s }
fn st_dbg<T: core::fmt::Debug>(s: SError, _n: &str, v: T) -> SError { core::mem::forget(v); s }

fn stub_format(_: core::fmt::Arguments<'_>) -> String { String::new() }

#[derive(Clone, Copy)]
struct E { k: [u8; 1], t: u64, tomb: bool, v: [u8; 1] }
fn ent(tape: &[u8], i: usize) -> E { E { k: [tape[i] & 3], t: (tape[i + 1] & 3) as u64, tomb: tape[i + 2] & 1 == 1, v: [tape[i] ^ 0x55] } }
fn lt(a: &E, b: &E) -> bool { (a.k[0], core::cmp::Reverse(a.t)) < (b.k[0], core::cmp::Reverse(b.t)) }
fn got(c: &BlockCursor) -> Option<(u8, u64, bool)> {
    match c.key() { None => None, Some(k) => Some((k.key[0], k.timestamp, c.value().is_none())) }
}

fn block1(tape: &[u8; 3]) -> bool {
    let e = ent(tape, 0);
    let mut b = BlockBuilder::new(BlockBuilderOptions::default());
    let r = if e.tomb { b.del(&e.k, e.t) } else { b.put(&e.k, e.t, &e.v) };
    if r.is_err() { return false; }
    let block = match b.seal() { Ok(b) => b, Err(_) => return false };
    let mut c = block.cursor();
    let mut ok = true;
    if c.next().is_err() { ok = false; }
    if got(&c) != Some((e.k[0], e.t, e.tomb)) { ok = false; }
    if c.next().is_err() { ok = false; }
    if got(&c) != None { ok = false; }
    core::mem::forget(c);
    core::mem::forget(block);
    ok
}

fn block2_fixed(pairs_interval: u32, tape: &[u8; 6]) -> bool {
    let e = [ent(tape, 0), ent(tape, 3)];
    if !lt(&e[0], &e[1]) { return true; }
    let opts = BlockBuilderOptions::default().key_value_pairs_restart_interval(pairs_interval);
    let mut b = BlockBuilder::new(opts);
    let mut i = 0;
    while i < 2 {
        let r = if e[i].tomb { b.del(&e[i].k, e[i].t) } else { b.put(&e[i].k, e[i].t, &e[i].v) };
        if r.is_err() { return false; }
        i += 1;
    }
    let block = match b.seal() { Ok(b) => b, Err(_) => return false };
    let mut c = block.cursor();
    let mut ok = true;
    if c.next().is_err() { ok = false; }
    if got(&c) != Some((e[0].k[0], e[0].t, e[0].tomb)) { ok = false; }
    if c.next().is_err() { ok = false; }
    if got(&c) != Some((e[1].k[0], e[1].t, e[1].tomb)) { ok = false; }
    if c.next().is_err() { ok = false; }
    if got(&c) != None { ok = false; }
    if c.prev().is_err() { ok = false; }
    if got(&c) != Some((e[1].k[0], e[1].t, e[1].tomb)) { ok = false; }
    core::mem::forget(c);
    core::mem::forget(block);
    ok
}

#[kani::proof]
#[kani::stub(alloc::fmt::format, stub_format)]
#[kani::stub(handled::SError::new, st_new)]
#[kani::stub(handled::SError::with_code, st_code)]
#[kani::stub(handled::SError::with_message, st_msg)]
#[kani::stub(handled::SError::with_atom_field, st_atom)]
#[kani::stub(handled::SError::with_string_field, st_str)]
#[kani::stub(handled::SError::with_debug_field, st_dbg)]
fn block1_next() { let tape: [u8; 3] = kani::any(); assert!(block1(&tape)); }

#[kani::proof]
#[kani::stub(alloc::fmt::format, stub_format)]
#[kani::stub(handled::SError::new, st_new)]
#[kani::stub(handled::SError::with_code, st_code)]
#[kani::stub(handled::SError::with_message, st_msg)]
#[kani::stub(handled::SError::with_atom_field, st_atom)]
#[kani::stub(handled::SError::with_string_field, st_str)]
#[kani::stub(handled::SError::with_debug_field, st_dbg)]
fn block2_fixed_restart16() { let tape: [u8; 6] = kani::any(); assert!(block2_fixed(16, &tape)); }

#[kani::proof]
#[kani::stub(alloc::fmt::format, stub_format)]
#[kani::stub(handled::SError::new, st_new)]
#[kani::stub(handled::SError::with_code, st_code)]
#[kani::stub(handled::SError::with_message, st_msg)]
#[kani::stub(handled::SError::with_atom_field, st_atom)]
#[kani::stub(handled::SError::with_string_field, st_str)]
#[kani::stub(handled::SError::with_debug_field, st_dbg)]
fn block2_fixed_restart1() { let tape: [u8; 6] = kani::any(); assert!(block2_fixed(1, &tape)); }
